#!/bin/sh
# usage: seedtest.sh <seed-id> <worktree> <demo-pkg-dir> <tier> <check> [<check> ...]
# 1. extracts the source patch and the demonstration test from the worktree
# 2. confirms: suite passes with the change (demo aside), demo fails with / passes without it
# 3. applies the patch to /repo, runs the given checks, undoes it
set -u
export GOFLAGS=-mod=mod GOPROXY=off GOSUMDB=off GOTOOLCHAIN=local
id=$1; wt=$2; pkg=$3; tier=$4; shift 4
out=/verif/seeded/$id
mkdir -p $out
git -C $wt diff -- . ':!*_test.go' > $out/patch.diff
cp $wt/$pkg/zz_seeded_demo_test.go $out/demo_test.go 2>/dev/null || { echo "no demo test in $wt/$pkg"; }
log=$out/confirm.log; : > $log
# confirm in a fresh scratch worktree
sw=/tmp/wt/confirm_$id
git -C /repo worktree add -q --detach $sw HEAD
( cd $sw && git apply $out/patch.diff && go build ./... && go test -vet=off -count=1 ./... ) >> $log 2>&1; suite=$?
cp $out/demo_test.go $sw/$pkg/zz_seeded_demo_test.go
( cd $sw && go test -vet=off -count=1 -run 'Seeded|Demo|Seed' ./$pkg ) >> $log 2>&1; demo_with=$?
( cd $sw && git apply -R $out/patch.diff && go test -vet=off -count=1 -run 'Seeded|Demo|Seed' ./$pkg ) >> $log 2>&1; demo_without=$?
git -C /repo worktree remove --force $sw
echo "suite_with_change_exit=$suite demo_with_change_exit=$demo_with demo_without_change_exit=$demo_without" | tee -a $log
# run the checks on /repo with the patch applied
git -C /repo apply $out/patch.diff || { echo "patch does not apply to /repo"; exit 2; }
res=""
for c in "$@"; do
  /verif/run $c $tier > $out/check_$c.log 2>&1; rc=$?
  v=$(grep -c '^VIOLATION' $out/check_$c.log)
  res="$res $c:exit=$rc,violations=$v"
  tail -1 $out/check_$c.log
done
git -C /repo checkout -- .
git -C /repo status --short | head -3
echo "RESULT $id:$res" | tee -a $log
