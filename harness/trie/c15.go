package trie

// Reference model: the set M of maximal sequences, kept as a list.

func vpEq(a, b []byte) bool {
	if len(a) != len(b) {
		return false
	}
	r := true
	for i := range a {
		r = r && a[i] == b[i]
	}
	return r
}

func vpHasPrefix(s, p []byte) bool {
	if len(p) > len(s) {
		return false
	}
	return vpEq(s[:len(p)], p)
}

type vpSet struct{ m [][]byte }

func (s *vpSet) add(b []byte) {
	if len(b) == 0 {
		return
	}
	for _, x := range s.m {
		if vpHasPrefix(x, b) {
			return
		}
	}
	var keep [][]byte
	for _, x := range s.m {
		if !vpHasPrefix(b, x) {
			keep = append(keep, x)
		}
	}
	s.m = append(keep, b)
}

func (s *vpSet) del(b []byte) bool {
	var keep [][]byte
	found := false
	for _, x := range s.m {
		if vpHasPrefix(x, b) {
			found = true
		} else {
			keep = append(keep, x)
		}
	}
	s.m = keep
	return found
}

func (s *vpSet) has(x []byte) bool {
	if len(x) == 0 {
		return true
	}
	for _, y := range s.m {
		if vpHasPrefix(y, x) {
			return true
		}
	}
	return false
}

func vpSymBytes(name string, minLen, maxLen int) []byte {
	n := minLen + vpChoice(name+".len", maxLen-minLen+1)
	return vpBytes(name, n)
}


// VP_C15_History: after any history of Add/Delete the trie is observationally
// the set of maximal sequences. Case parameters: depth, maxlen, order (map
// iteration order mode), ops (-1: every operation kind is a symbolic choice;
// otherwise bit i fixes step i to Add (0) or Delete (1), which only splits the
// same search over several workers).
func VP_C15_History() {
	d, L := vpCase("depth"), vpCase("maxlen")
	vpMapOrder(vpCase("order"))
	ops := vpCase("ops")
	t := New()
	ref := &vpSet{}
	for step := 0; step < d; step++ {
		nm := "s" + vpDigit(step)
		var op int
		if ops >= 0 {
			op = (ops >> step) & 1
		} else {
			op = vpChoice(nm+".op", 2)
		}
		var b []byte
		if op == 0 {
			b = vpSymBytes(nm, 0, L)
			t.Add(b)
			ref.add(append([]byte(nil), b...))
		} else {
			b = vpSymBytes(nm, 1, L)
			got := t.Delete(b)
			want := ref.del(b)
			vpAssert(got == want, "Delete reports whether a member had the prefix")
		}
		// observe after every step: the operand itself and all its prefixes
		for k := 0; k <= len(b); k++ {
			vpAssert(t.Has(b[:k]) == ref.has(b[:k]), "Has agrees with the set model on the operand's prefixes")
		}
		if step == d-1 {
			// an arbitrary probe after the whole history
			x := vpSymBytes("probe", 0, L+1)
			vpAssert(t.Has(x) == ref.has(x), "Has(x) iff x is empty or a prefix of a member")
		}
		// fe (optional): bit i set = ForEach is observed after step i; by
		// default after every step. Skipping steps matters for an
		// implementation that keeps anything from one ForEach to the next.
		if fe := vpCaseOr("fe", -1); fe >= 0 && (fe>>step)&1 == 0 {
			continue
		}
		var seen [][]byte
		t.ForEach(func(b []byte) bool {
			seen = append(seen, append([]byte(nil), b...))
			return true
		})
		vpAssert(len(seen) == len(ref.m), "ForEach reports as many sequences as there are members")
		allMember, distinct := true, true
		for i, s := range seen {
			isM := false
			for _, m := range ref.m {
				isM = isM || vpEq(s, m)
			}
			allMember = allMember && isM
			for j := 0; j < i; j++ {
				distinct = distinct && !vpEq(s, seen[j])
			}
		}
		vpAssert(allMember, "ForEach reports only members")
		vpAssert(distinct, "ForEach reports every member once")
	}
	vpReach("end")
}

// VP_C18_ForEach: ForEach can be stopped after any number of members: no
// further callback, no panic; what was seen are distinct members.
func VP_C18_ForEach() {
	vpMapOrder(vpCase("order"))
	k, L := vpCase("strings"), vpCase("maxlen")
	t := New()
	ref := &vpSet{}
	for i := 0; i < k; i++ {
		b := vpSymBytes("s"+vpDigit(i), 1, L)
		t.Add(b)
		ref.add(append([]byte(nil), b...))
	}
	stop := vpChoice("stop", len(ref.m)+1)
	var seen [][]byte
	after := 0
	declined := false
	p := vpPanics(func() {
		t.ForEach(func(b []byte) bool {
			if declined {
				after++
				return false
			}
			seen = append(seen, append([]byte(nil), b...))
			if len(seen) > stop {
				declined = true
				return false
			}
			return true
		})
	})
	vpAssert(!p, "stopping ForEach early does not panic")
	vpAssert(after == 0, "no callback after the consumer declined")
	want := stop + 1
	if want > len(ref.m) {
		want = len(ref.m)
	}
	vpAssert(len(seen) == want, "exactly the accepted number of members was reported")
	ok := true
	for i, s := range seen {
		isM := false
		for _, m := range ref.m {
			isM = isM || vpEq(s, m)
		}
		ok = ok && isM
		for j := 0; j < i; j++ {
			ok = ok && !vpEq(s, seen[j])
		}
	}
	vpAssert(ok, "the members seen are distinct members of the full result")
	vpReach("end")
}

// VP_C15_Big: members longer than any fixed-size traversal stack (33, 40 and
// 100 bytes, two of them sharing a long prefix, last bytes symbolic) and a
// node with all 256 children (wider than any 8-bit child counter): ForEach
// reports every member exactly once, Has agrees, also when stopped early.
func VP_C15_Big() {
	vpMapOrder(vpCase("order"))
	t := New()
	ref := &vpSet{}
	add := func(b []byte) {
		t.Add(b)
		ref.add(append([]byte(nil), b...))
	}
	if vpCase("kind") == 0 {
		for i, n := range []int{33, 40, 100} {
			b := make([]byte, n)
			for j := range b {
				b[j] = byte('a' + (j*7+i/2)%5)
			}
			b[n-1] = vpByte("last" + vpDigit(i))
			add(b)
		}
		add([]byte{vpByte("short")})
	} else {
		for c := 0; c < 256; c++ {
			add([]byte{byte(c)})
		}
		add([]byte{'k', 'q'}) // absorbs the member "k"
	}
	var seen [][]byte
	stop := vpCaseOr("stop", -1)
	calls := 0
	p := vpPanics(func() {
		t.ForEach(func(b []byte) bool {
			calls++
			seen = append(seen, append([]byte(nil), b...))
			return calls != stop && calls < len(ref.m)+8
		})
	})
	vpAssert(!p, "ForEach does not panic")
	if stop < 0 {
		vpAssert(len(seen) == len(ref.m), "ForEach reports as many sequences as there are members")
	} else {
		want := stop
		if want > len(ref.m) {
			want = len(ref.m)
		}
		vpAssert(calls == want, "exactly min(stop, number of members) callbacks: none after the consumer declined, none beyond the members")
	}
	allMember, distinct := true, true
	for i, s := range seen {
		isM := false
		for _, m := range ref.m {
			isM = isM || vpEq(s, m)
		}
		allMember = allMember && isM
		for j := 0; j < i; j++ {
			distinct = distinct && !vpEq(s, seen[j])
		}
	}
	vpAssert(allMember, "ForEach reports only members")
	vpAssert(distinct, "ForEach reports every member once")
	for _, m := range ref.m {
		vpAssert(t.Has(m), "Has finds every member")
	}
	vpReach("end")
}
