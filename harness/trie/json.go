package trie


// Model of encoding/json for the one type this package marshals: the mirror
// struct marshalTrie{M map[byte]*Trie `json:"m"`}. encoding/json is
// reflection-driven and out of the executor's reach; what the repository's
// code is responsible for - converting to and from the mirror struct,
// recursing through the children's own MarshalJSON/UnmarshalJSON and
// assigning the decoded map - runs from its SSA around this model.
//
// The property does not speak about the JSON text, only about the trie that
// comes back, so the model serialises abstractly: a nil map is the byte 'N';
// otherwise 'M', the number of entries, and per entry either ('n', key) for a
// nil child or ('c', key, 2-byte length, the child's MarshalJSON output); a
// key is a length byte and the key's bytes.
// Control bytes and lengths are concrete, keys stay symbolic data. Decoding
// does what encoding/json does with a map field: a nil map is made, existing
// entries are kept and overwritten by key, a null child becomes a nil
// pointer, every other child is a new(Trie) whose UnmarshalJSON receives the
// child's raw text. Natively the real encoding/json runs: every run replays
// explored paths natively and compares the observations (Has answers, member
// counts), which is the conformance check of this model.

func vpJSONMarshal(v any) ([]byte, error) {
	var mt marshalTrie
	switch x := v.(type) {
	case marshalTrie:
		mt = x
	case *marshalTrie:
		mt = *x
	default:
		vpUnsupported("json.Marshal of a type other than marshalTrie")
	}
	// the field's json tag decides whether it is written at all
	name, omitEmpty := vpJSONTag()
	if name == "-" || (omitEmpty && len(mt.M) == 0) {
		return []byte{'E'}, nil // an object without the field
	}
	return vpMarshalMap(mt.M)
}

// vpMarshalMap / vpUnmarshalMap are generic in the key type of the mirror
// struct's map, so that the model keeps compiling (and keeps deciding) when the
// key type changes. Keys: a byte is one byte; a string key is written the way
// encoding/json writes strings - every byte that is not part of valid UTF-8
// is replaced by U+FFFD - with a length byte in front.
func vpMarshalMap[K comparable](m map[K]*Trie) ([]byte, error) {
	if m == nil {
		return []byte{'N'}, nil
	}
	out := []byte{'M', byte(len(m))}
	for k, child := range m {
		var kb []byte
		switch x := any(k).(type) {
		case byte:
			kb = []byte{1, x}
		case string:
			var enc []byte
			for _, r := range x { // ranging decodes UTF-8; invalid bytes give U+FFFD
				enc = append(enc, string(r)...)
			}
			kb = append([]byte{byte(len(enc))}, enc...)
		default:
			vpUnsupported("map key type of the mirror struct")
		}
		if child == nil {
			out = append(out, 'n')
			out = append(out, kb...)
			continue
		}
		b, err := child.MarshalJSON()
		if err != nil {
			return nil, err
		}
		out = append(out, 'c')
		out = append(out, kb...)
		out = append(out, byte(len(b)>>8), byte(len(b)))
		out = append(out, b...)
	}
	return out, nil
}

func vpUnmarshalMap[K comparable](pm *map[K]*Trie, data []byte) error {
	if len(data) == 1 && data[0] == 'N' {
		*pm = nil
		return nil
	}
	if len(data) < 2 || data[0] != 'M' {
		vpUnsupported("json text outside the model")
	}
	if *pm == nil {
		*pm = map[K]*Trie{}
	}
	n := int(data[1])
	i := 2
	for e := 0; e < n; e++ {
		tag := data[i]
		kl := int(data[i+1])
		raw := data[i+2 : i+2+kl]
		i += 2 + kl
		var zero K
		var key K
		switch any(zero).(type) {
		case byte:
			key = any(raw[0]).(K)
		case string:
			key = any(string(raw)).(K)
		default:
			vpUnsupported("map key type of the mirror struct")
		}
		if tag == 'n' {
			(*pm)[key] = nil
			continue
		}
		l := int(data[i])<<8 | int(data[i+1])
		child := new(Trie)
		if err := child.UnmarshalJSON(data[i+2 : i+2+l]); err != nil {
			return err
		}
		(*pm)[key] = child
		i += 2 + l
	}
	return nil
}

// vpJSONTag: name and omitempty option of the json tag of marshalTrie's only
// field (read from the type by the executor, by reflection natively).
func vpJSONTag() (name string, omitEmpty bool) {
	tag := vpFieldTag(marshalTrie{}, 0, "json")
	for i := 0; i < len(tag); i++ {
		if tag[i] == ',' {
			rest := tag[i+1:]
			return tag[:i], rest == "omitempty" || (len(rest) > 10 && (rest[:10] == "omitempty," || rest[len(rest)-10:] == ",omitempty"))
		}
	}
	return tag, false
}

func vpJSONUnmarshal(data []byte, v any) error {
	p, ok := v.(*marshalTrie)
	if !ok {
		vpUnsupported("json.Unmarshal into a type other than *marshalTrie")
	}
	if len(data) == 1 && data[0] == 'E' {
		return nil // the field is absent: the destination keeps what it has
	}
	if name, _ := vpJSONTag(); name == "-" {
		return nil
	}
	return vpUnmarshalMap(&p.M, data)
}

// vpMembers lists what ForEach reports.
func vpMembers(t *Trie) [][]byte {
	var out [][]byte
	t.ForEach(func(b []byte) bool {
		out = append(out, append([]byte(nil), b...))
		return true
	})
	return out
}

func vpSameSets(a, b [][]byte) bool {
	if len(a) != len(b) {
		return false
	}
	ok := true
	for _, x := range a {
		in := false
		for _, y := range b {
			in = in || vpEq(x, y)
		}
		ok = ok && in
	}
	return ok
}

// VP_C15_JSON: a trie rebuilt from its JSON form is indistinguishable from the
// original: same Has on a probe, same members, and the same behaviour under
// one more update. The original is left unchanged by marshalling.
func VP_C15_JSON() {
	vpMapOrder(vpCase("order"))
	k, L := vpCase("strings"), vpCase("maxlen")
	t := New()
	ref := &vpSet{}
	for i := 0; i < k; i++ {
		b := vpSymBytes("s"+vpDigit(i), 1, L)
		t.Add(b)
		ref.add(append([]byte(nil), b...))
	}
	if vpCase("del") == 1 {
		b := vpSymBytes("d", 1, L)
		t.Delete(b)
		ref.del(b)
	}
	data, err := t.MarshalJSON()
	vpAssert(err == nil, "MarshalJSON succeeds")
	t2 := New()
	err = t2.UnmarshalJSON(data)
	vpAssert(err == nil, "UnmarshalJSON accepts what MarshalJSON produced")
	x := vpSymBytes("probe", 0, L+1)
	vpAssert(t2.Has(x) == ref.has(x), "the rebuilt trie answers Has like the original")
	vpAssert(t.Has(x) == ref.has(x), "marshalling leaves the original unchanged")
	vpAssert(vpSameSets(vpMembers(t2), ref.m) && len(vpMembers(t2)) == len(ref.m), "the rebuilt trie has the same members")
	// one more update on both
	u := vpSymBytes("u", 1, L)
	if vpChoice("uop", 2) == 0 {
		t.Add(u)
		t2.Add(u)
	} else {
		vpAssert(t.Delete(u) == t2.Delete(u), "Delete reports the same on both")
	}
	vpAssert(vpSameSets(vpMembers(t), vpMembers(t2)), "both behave alike under a further update")
	// a second generation: marshal the rebuilt trie again
	data2, err2 := t2.MarshalJSON()
	t3 := New()
	vpAssert(err2 == nil && t3.UnmarshalJSON(data2) == nil && vpSameSets(vpMembers(t3), vpMembers(t2)), "a second round trip")
	vpObserveInt("members", len(ref.m))
	vpReach("end")
}
