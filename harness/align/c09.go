package align

// vpAltTable scores an arbitrary alternative alignment, represented the way
// a traceback table represents one: every inner cell (ai,bi) of the
// (len(a)+1) x (len(b)+1) grid carries a symbolic step by which a path enters
// it; following the steps back from a cell gives one alignment of the
// prefixes ending there, and every alignment arises from some table. V[c] is
// the score of that alignment under the documented scoring (gap-open once per
// run of equal gap steps). With local=true a cell may also be the start of the
// alignment (step 0, score 0), so V[c] ranges over all alignments of all
// pairs of substrings ending at c.
func vpAltTable(a, b []byte, m SubstitutionMatrix, name string, local bool) []float64 {
	an, bn := len(a)+1, len(b)+1
	V := make([]float64, an*bn)
	D := make([]Step, an*bn)
	open := m[[2]byte{Gap, Gap}]
	for c := 1; c < an*bn; c++ {
		ai, bi := c/bn, c%bn
		var d Step
		switch {
		case local:
			d = Step(vpByte(name + vpDigit(ai) + vpDigit(bi)))
			vpAssume(d <= 3)
			if ai == 0 {
				vpAssume(d == 0 || d == Insertion)
			}
			if bi == 0 {
				vpAssume(d == 0 || d == Deletion)
			}
		case ai == 0:
			d = Insertion
		case bi == 0:
			d = Deletion
		default:
			d = Step(vpByte(name + vpDigit(ai) + vpDigit(bi)))
			vpAssume(d >= 1 && d <= 3)
		}
		D[c] = d
		// (the index guards are concrete; they keep the excluded step kinds of
		// edge cells from indexing outside the table)
		switch d {
		case Match:
			if ai > 0 && bi > 0 {
				V[c] = V[c-bn-1] + m[[2]byte{a[ai-1], b[bi-1]}]
			}
		case Deletion:
			if ai > 0 {
				v := V[c-bn] + m[[2]byte{a[ai-1], Gap}]
				if D[c-bn] != Deletion {
					v += open
				}
				V[c] = v
			}
		case Insertion:
			if bi > 0 {
				v := V[c-1] + m[[2]byte{Gap, b[bi-1]}]
				if D[c-1] != Insertion {
					v += open
				}
				V[c] = v
			}
		default:
			V[c] = 0
		}
	}
	return V
}

// vpRefTable is the harness's reference DP (score only): the textbook
// recurrence with one (score, step) per cell, written in the same order of
// operations as the documentation describes it. With local=true cells are
// clamped at zero.
func vpRefTable(a, b []byte, m SubstitutionMatrix, local bool) []float64 {
	an, bn := len(a)+1, len(b)+1
	sc := make([]float64, an*bn)
	st := make([]Step, an*bn)
	open := m[[2]byte{Gap, Gap}]
	for i := 1; i < an*bn; i++ {
		ai, bi := i/bn, i%bn
		switch {
		case ai == 0:
			st[i] = Insertion
			sc[i] = sc[i-1] + m[[2]byte{Gap, b[bi-1]}]
			if bi == 1 {
				sc[i] += open
			}
		case bi == 0:
			st[i] = Deletion
			sc[i] = sc[i-bn] + m[[2]byte{a[ai-1], Gap}]
			if ai == 1 {
				sc[i] += open
			}
		default:
			mch := sc[i-bn-1] + m[[2]byte{a[ai-1], b[bi-1]}]
			del := sc[i-bn] + m[[2]byte{a[ai-1], Gap}]
			if st[i-bn] != Deletion {
				del += open
			}
			ins := sc[i-1] + m[[2]byte{Gap, b[bi-1]}]
			if st[i-1] != Insertion {
				ins += open
			}
			if mch >= del && mch >= ins {
				sc[i], st[i] = mch, Match
			} else if del >= ins {
				sc[i], st[i] = del, Deletion
			} else {
				sc[i], st[i] = ins, Insertion
			}
		}
		if local && sc[i] < 0 {
			sc[i], st[i] = 0, 0
		}
	}
	return sc
}

// VP_C09_GlobalOptimal: no alignment of a and b scores higher than Global's
// result. Shown cell by cell: (1) for every cell c and every alignment of the
// prefixes ending at c (arbitrary traceback table), its score V[c] is at most
// the reference DP value R[c] - each cell is one query that may use the
// already proved cells as lemmas; (2) Global's score equals R at the last
// cell; hence (3) no alignment scores higher than Global's result, which is
// also asserted directly.
func VP_C09_GlobalOptimal() {
	a, b, m := vpInputs(false)
	vpWarm(m, false)
	V := vpAltTable(a, b, m, "alt", false)
	if vpCase("lemmas") == 1 {
		R := vpRefTable(a, b, m, false)
		for c := range V {
			vpAssert(V[c] <= R[c], "cell lemma: every alignment of the prefixes scores at most the DP cell")
		}
		_, score := Global(a, b, m)
		vpAssert(score == R[len(R)-1], "Global's score is the last DP cell")
		vpAssert(!(V[len(V)-1] > score), "no alignment scores higher than the one Global returns")
		vpReach("end")
		return
	}
	_, score := Global(a, b, m)
	better := V[len(V)-1] > score
	if vpCase("exclSingleCell") == 1 {
		// known finding D8 (affine gaps): report only violations that the
		// single-cell recurrence itself does not explain
		R := vpRefTable(a, b, m, false)
		better = better && score != R[len(R)-1]
	}
	vpAssert(!better, "no alignment scores higher than the one Global returns")
	vpReach("end")
}

// VP_C09_LocalOptimal: no alignment of any pair of substrings scores higher
// than Local's result (same structure as the global case).
func VP_C09_LocalOptimal() {
	a, b, m := vpInputs(true)
	vpWarm(m, true)
	V := vpAltTable(a, b, m, "alt", true)
	if vpCase("lemmas") == 1 {
		R := vpRefTable(a, b, m, true)
		best := float64(0)
		for c := range V {
			vpAssert(V[c] <= R[c], "cell lemma: every local alignment ending here scores at most the DP cell")
			if R[c] > best {
				best = R[c]
			}
		}
		_, _, _, score := Local(a, b, m)
		vpAssert(score == best, "Local's score is the maximum DP cell")
		worse := true
		for c := range V {
			worse = worse && !(V[c] > score)
		}
		vpAssert(worse, "no alignment of substrings scores higher than the one Local returns")
		vpReach("end")
		return
	}
	_, _, _, score := Local(a, b, m)
	better := false
	for c := range V {
		better = better || V[c] > score
	}
	if vpCase("exclSingleCell") == 1 {
		R := vpRefTable(a, b, m, true)
		best := float64(0)
		for c := range R {
			if R[c] > best {
				best = R[c]
			}
		}
		better = better && score != best
	}
	vpAssert(!better, "no alignment of substrings scores higher than the one Local returns")
	vpReach("end")
}


// VP_C09_Levenshtein: the table is 0 on the diagonal and -1 elsewhere for all
// 65536 pairs, and Global's score with it is minus the edit distance.
func VP_C09_Levenshtein() {
	x, y := vpByte("x"), vpByte("y")
	v, ok := Levenshtein[[2]byte{x, y}]
	vpAssert(ok, "Levenshtein is defined for every pair of bytes")
	want := float64(-1)
	if x == y {
		want = 0
	}
	vpAssert(v == want, "Levenshtein is 0 on the diagonal and -1 elsewhere")
	n, mm := vpCase("n"), vpCase("m")
	var a, b []byte
	if vpCaseOr("allBytes", 0) == 1 {
		// binary data: a holds every byte value 0..254 once (all 255 symbols
		// besides the gap) and then the last value twice more; b is a without
		// those two (concrete - a 257x255 table with symbolic bytes does not
		// finish): any per-call numbering of the distinct symbols runs through
		// its whole range
		for c := 0; c < 255; c++ {
			a = append(a, byte(c))
		}
		b = append([]byte(nil), a...)
		a = append(a, 254, 254)
		n, mm = len(a), len(b)
	} else {
		a, b = vpAnySeq("a", n), vpAnySeq("b", mm)
	}
	_, score := Global(a, b, Levenshtein)
	// Wagner-Fischer
	d := make([]float64, (n+1)*(mm+1))
	w := mm + 1
	for i := 0; i <= n; i++ {
		for j := 0; j <= mm; j++ {
			switch {
			case i == 0:
				d[i*w+j] = float64(j)
			case j == 0:
				d[i*w+j] = float64(i)
			default:
				c := d[(i-1)*w+j-1]
				if a[i-1] != b[j-1] {
					c++
				}
				c = min(c, d[(i-1)*w+j]+1, d[i*w+j-1]+1)
				d[i*w+j] = c
			}
		}
	}
	vpAssert(score == -d[n*w+mm], "Global with Levenshtein scores minus the edit distance")
	vpReach("end")
}

// VP_C09_Tables: every shipped matrix is defined on every pair over its
// alphabet and against the gap, is symmetric, has gap-open 0; aligning two
// protein sequences does not panic and is symmetric in its arguments.
func VP_C09_Tables() {
	m := vpShipped(vpCase("matrix"))
	letters := vpProtein + string([]byte{Gap})
	x, y := vpByte("x"), vpByte("y")
	inX, inY := false, false
	for i := 0; i < len(letters); i++ {
		inX = inX || x == letters[i]
		inY = inY || y == letters[i]
	}
	vpAssume(inX && inY)
	v1, ok1 := m[[2]byte{x, y}]
	v2, ok2 := m[[2]byte{y, x}]
	vpAssert(ok1 && ok2, "defined for every pair over the alphabet and against the gap")
	vpAssert(v1 == v2, "symmetric")
	vpAssert(m[[2]byte{Gap, Gap}] == 0, "gap-open score is zero")
	vpAssert(len(m) == 24*24, "exactly the 24x24 pairs")
	n, mm := vpCase("n"), vpCase("m")
	a, b := vpProteinSeq("a", n), vpProteinSeq("b", mm)
	var s1, s2 float64
	p := vpPanics(func() {
		_, s1 = Global(a, b, m)
		_, s2 = Global(b, a, m)
	})
	vpAssert(!p, "aligning two protein sequences does not panic")
	vpAssert(s1 == s2, "swapping the arguments leaves the Global score unchanged")
	var l1, l2 float64
	p = vpPanics(func() {
		_, _, _, l1 = Local(a, b, m)
		_, _, _, l2 = Local(b, a, m)
	})
	vpAssert(!p, "Local on two protein sequences does not panic")
	vpAssert(l1 == l2, "swapping the arguments leaves the Local score unchanged")
	vpReach("end")
}
