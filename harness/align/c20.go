package align

import "strings"

// VP_C20_Symmetrical: the result has every original pair and its mirror with
// the original score and nothing else; the receiver is unchanged; it panics
// exactly when two mirrored pairs carry different scores - under every map
// iteration order.
func VP_C20_Symmetrical() {
	vpMapOrder(vpCase("order"))
	n := vpCase("entries")
	type ent struct {
		a, b byte
		v    float64
	}
	var es []ent
	m := SubstitutionMatrix{}
	for i := 0; i < n; i++ {
		e := ent{vpByte("a" + vpDigit(i)), vpByte("b" + vpDigit(i)), vpFloatInt("v"+vpDigit(i), -3, 3)}
		for _, o := range es {
			vpAssume(o.a != e.a || o.b != e.b) // distinct keys
		}
		es = append(es, e)
		m[[2]byte{e.a, e.b}] = e.v
	}
	conflict := false
	for _, x := range es {
		for _, y := range es {
			conflict = conflict || (x.a != x.b && x.a == y.b && x.b == y.a && x.v != y.v)
		}
	}
	var res SubstitutionMatrix
	p := vpPanics(func() { res = m.Symmetrical() })
	vpAssert(p == conflict, "panics exactly when two mirrored pairs carry different scores")
	// receiver unchanged
	same := len(m) == n
	for _, e := range es {
		v, ok := m[[2]byte{e.a, e.b}]
		same = same && ok && v == e.v
	}
	vpAssert(same, "the receiver is unchanged")
	if !p {
		ok := true
		for _, e := range es {
			v1, h1 := res[[2]byte{e.a, e.b}]
			v2, h2 := res[[2]byte{e.b, e.a}]
			ok = ok && h1 && h2 && v1 == e.v && v2 == e.v
		}
		vpAssert(ok, "every original pair and its mirror image with the original score")
		// nothing else: every key of the result is an original pair or a mirror
		only := true
		for k := range res {
			is := false
			for _, e := range es {
				is = is || (k[0] == e.a && k[1] == e.b) || (k[0] == e.b && k[1] == e.a)
			}
			only = only && is
		}
		vpAssert(only, "nothing else")
		// a NEW matrix: writing into the result must not reach the receiver
		for k := range res {
			res[k] = 99
		}
		res[[2]byte{Gap, Gap}] = -5
		indep := len(m) == n
		for _, e := range es {
			v, ok := m[[2]byte{e.a, e.b}]
			indep = indep && ok && v == e.v
		}
		vpAssert(indep, "the result is a new matrix: modifying it leaves the receiver unchanged")
	}
	vpReach("end")
}

// VP_C20_GoString: every pair exactly once, in ascending bytewise key order,
// as {a,b}:score with Gap for 255.
func VP_C20_GoString() {
	vpMapOrder(vpCase("order"))
	keys := []byte{'A', 'Z', '\'', 0, Gap}
	vals := []float64{1, -2, 0.5}
	valTxt := []string{"1", "-2", "0.5"}
	n := vpCase("entries")
	m := SubstitutionMatrix{}
	type ent struct {
		a, b byte
		txt  string
	}
	var es []ent
	for i := 0; i < n; i++ {
		a := keys[vpChoice("a"+vpDigit(i), len(keys))]
		b := keys[vpChoice("b"+vpDigit(i), len(keys))]
		if _, dup := m[[2]byte{a, b}]; dup {
			vpAssume(false)
		}
		v := (i + vpCase("shift")) % len(vals)
		m[[2]byte{a, b}] = vals[v]
		es = append(es, ent{a, b, valTxt[v]})
	}
	// expected: sort entries by (a,b), print
	for i := range es {
		for j := i + 1; j < len(es); j++ {
			if es[j].a < es[i].a || (es[j].a == es[i].a && es[j].b < es[i].b) {
				es[i], es[j] = es[j], es[i]
			}
		}
	}
	q := func(c byte) string {
		switch c {
		case Gap:
			return "Gap"
		case '\'':
			return `'\''`
		case 0:
			return `'\x00'`
		}
		return "'" + string(rune(c)) + "'"
	}
	var sb strings.Builder
	sb.WriteString("SubstitutionMatrix{\n")
	for _, e := range es {
		sb.WriteString("{" + q(e.a) + "," + q(e.b) + "}:" + e.txt + ",\n")
	}
	sb.WriteString("}\n")
	vpAssert(m.GoString() == sb.String(), "every pair once, ascending key order, exact score")
	vpReach("end")
}
