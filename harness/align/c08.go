package align

import "bytes"

// VP_C08_Global: the steps consume exactly a and b and score what Global
// claims, for any (also asymmetric) integer matrix and any gap-open.
func VP_C08_Global() {
	n, mm := vpCase("n"), vpCase("m")
	a, b, m := vpInputs(false)
	vpWarm(m, false)
	ac, bc := append([]byte(nil), a...), append([]byte(nil), b...)
	var steps []Step
	var score float64
	p := vpPanics(func() { steps, score = Global(a, b, m) })
	vpAssert(!p, "Global does not panic")
	if p {
		return
	}
	re, wf, ea, eb := vpScoreSteps(ac, bc, m, steps, 0, 0)
	vpAssert(wf, "every step is a match, deletion or insertion inside the sequences")
	vpAssert(ea == n && eb == mm, "steps consume exactly all of a and all of b")
	vpAssert(re == score, "returned score equals the score of the returned steps")
	vpAssert(bytes.Equal(a, ac) && bytes.Equal(b, bc), "inputs not modified")
	vpObserveInt("len", len(steps))
	vpReach("end")
}

// VP_C08_Local: steps stay inside a and b from the returned offsets, score
// what Local claims; no positive alignment -> no steps and score 0.
func VP_C08_Local() {
	a, b, m := vpInputs(true)
	vpWarm(m, true)
	ac, bc := append([]byte(nil), a...), append([]byte(nil), b...)
	var steps []Step
	var ai, bi int
	var score float64
	p := vpPanics(func() { steps, ai, bi, score = Local(a, b, m) })
	vpAssert(!p, "Local does not panic")
	if p {
		return
	}
	if len(steps) == 0 {
		vpAssert(score == 0, "no steps: score 0")
	} else {
		vpAssert(score > 0, "steps returned: positive score")
		re, wf, _, _ := vpScoreSteps(ac, bc, m, steps, ai, bi)
		vpAssert(wf, "steps stay inside a and b from the returned offsets")
		vpAssert(re == score, "returned score equals the score of the returned steps")
	}
	vpAssert(bytes.Equal(a, ac) && bytes.Equal(b, bc), "inputs not modified")
	vpObserveInt("len", len(steps))
	vpReach("end")
}
