package align

import "math"


var vpAlpha = []byte{'A', 'C', 'G'}

// vpSeq is a symbolic sequence of n letters over vpAlpha[:k].
func vpSeq(name string, n, k int) []byte {
	s := vpBytes(name, n)
	for _, c := range s {
		ok := false
		for _, l := range vpAlpha[:k] {
			ok = ok || c == l
		}
		vpAssume(ok)
	}
	return s
}

// vpMatrix is a matrix over vpAlpha[:k] and Gap with symbolic integer-valued
// entries in [-r, r]; gap scores in [gapLo, gapHi]; gap-open in [openLo, openHi].
func vpMatrix(k, r, gapLo, gapHi, openLo, openHi int) SubstitutionMatrix {
	return vpMatrixP("", k, r, gapLo, gapHi, openLo, openHi)
}

func vpMatrixP(pre string, k, r, gapLo, gapHi, openLo, openHi int) SubstitutionMatrix {
	m := SubstitutionMatrix{}
	for i, x := range vpAlpha[:k] {
		for j, y := range vpAlpha[:k] {
			m[[2]byte{x, y}] = vpFloatInt(pre+"S"+vpDigit(i)+vpDigit(j), -r, r)
		}
		m[[2]byte{x, Gap}] = vpFloatInt(pre+"Sdel"+vpDigit(i), gapLo, gapHi)
		m[[2]byte{Gap, x}] = vpFloatInt(pre+"Sins"+vpDigit(i), gapLo, gapHi)
	}
	m[[2]byte{Gap, Gap}] = vpFloatInt(pre+"open", openLo, openHi)
	return m
}

// vpWarm (case parameter warm=1, symbolic matrices only): the very map object
// that is about to be used first holds other scores and is used for one
// alignment, then its entries are overwritten in place with the final scores.
// An implementation that keeps anything derived from a matrix between calls
// answers the second call from stale data.
func vpWarm(m SubstitutionMatrix, local bool) {
	if vpCaseOr("warm", 0) != 1 || vpCase("matrix") != 0 {
		return
	}
	final := SubstitutionMatrix{}
	for key, v := range m {
		final[key] = v
	}
	k := vpCase("alpha")
	gapHi := 8
	if local {
		gapHi = 0
	}
	for key, v := range vpMatrixP("W", k, 8, -8, gapHi, vpCase("openLo"), vpCase("openHi")) {
		m[key] = v
	}
	// the warm-up alignments are as large as the one to come (anything kept
	// from them - a cached table, a pooled DP buffer - is then reused) and
	// run both functions
	xa, xb := make([]byte, vpCase("n")), make([]byte, vpCase("m"))
	for i := range xa {
		xa[i] = vpAlpha[0]
	}
	for i := range xb {
		xb[i] = vpAlpha[(i+1)%k]
	}
	Global(xa, xb, m)
	if local {
		Local(xb, xa, m)
	}
	for key, v := range final {
		m[key] = v
	}
}

// vpFracMatrix: scores that are not small integers. Gap scores are negative,
// gap-open is -0.5 (openTenths case parameter: tenths).
func vpFracMatrix(k int, big, local bool) SubstitutionMatrix {
	m := SubstitutionMatrix{}
	unit, off := 0.1, 0.0
	if big {
		unit, off = 0.5, 20000001
	}
	for i, x := range vpAlpha[:k] {
		for j, y := range vpAlpha[:k] {
			if i == j {
				m[[2]byte{x, y}] = off + unit*float64(11+i)
			} else {
				m[[2]byte{x, y}] = -(off + unit*float64(3+2*i+j))
			}
		}
		m[[2]byte{x, Gap}] = -(off/2 + unit*float64(7+i))
		m[[2]byte{Gap, x}] = -(off/2 + unit*float64(6+2*i))
	}
	m[[2]byte{Gap, Gap}] = -unit * float64(vpCaseOr("openTenths", 5))
	return m
}

// vpAt is a[i] for a symbolic in-range i, written as data flow (no bounds
// branch on the symbolic index).
func vpAt(a []byte, i int) byte {
	var r byte
	for k := range a {
		if i == k {
			r = a[k]
		}
	}
	return r
}

// vpScoreSteps scores the steps under the documented scoring, starting at
// (ai, bi): pair score per match, gap score per gap step, gap-open once per
// maximal run of equal gap steps. wellFormed reports that every step is one of
// the three kinds and stays inside a and b; (ea, eb) is the end position.
func vpScoreSteps(a, b []byte, m SubstitutionMatrix, steps []Step, ai, bi int) (score float64, wellFormed bool, ea, eb int) {
	i, j := ai, bi
	wellFormed = ai >= 0 && bi >= 0 && ai <= len(a) && bi <= len(b)
	open := m[[2]byte{Gap, Gap}]
	var prev Step
	for _, s := range steps {
		switch s {
		case Match:
			if i < len(a) && j < len(b) {
				score += m[[2]byte{vpAt(a, i), vpAt(b, j)}]
			} else {
				wellFormed = false
			}
			i++
			j++
		case Deletion:
			if i < len(a) {
				score += m[[2]byte{vpAt(a, i), Gap}]
			} else {
				wellFormed = false
			}
			if prev != Deletion {
				score += open
			}
			i++
		case Insertion:
			if j < len(b) {
				score += m[[2]byte{Gap, vpAt(b, j)}]
			} else {
				wellFormed = false
			}
			if prev != Insertion {
				score += open
			}
			j++
		default:
			wellFormed = false
		}
		prev = s
	}
	return score, wellFormed, i, j
}

const vpProtein = "ABCDEFGHIKLMNPQRSTVWXYZ"

// vpShipped returns one of the matrices the package ships.
func vpShipped(which int) SubstitutionMatrix {
	switch which {
	case 1:
		return BLOSUM45
	case 2:
		return BLOSUM62
	case 3:
		return BLOSUM80
	case 4:
		return PAM120
	case 5:
		return PAM160
	case 6:
		return PAM250
	}
	return Levenshtein
}

// vpProteinSeq is a symbolic sequence over the 23 amino-acid letters of the
// shipped tables.
func vpProteinSeq(name string, n int) []byte {
	s := vpBytes(name, n)
	for _, c := range s {
		ok := false
		for i := 0; i < len(vpProtein); i++ {
			ok = ok || c == vpProtein[i]
		}
		vpAssume(ok)
	}
	return s
}

// vpAnySeq is a symbolic sequence over all byte values except Gap.
func vpAnySeq(name string, n int) []byte {
	s := vpBytes(name, n)
	for _, c := range s {
		vpAssume(c != Gap)
	}
	return s
}

// vpInputs picks the sequences and matrix of a case: matrix 0 = symbolic
// integer matrix over a k-letter alphabet, 1..6 = shipped protein matrices,
// 7 = Levenshtein over all bytes.
func vpInputs(local bool) (a, b []byte, m SubstitutionMatrix) {
	a, b, m = vpInputs0(local)
	if vpCaseOr("shared", 0) == 1 {
		// both sequences cut from one buffer, a directly before b: code that
		// appends to a writes into b
		c := vpCarve(a, b)
		a, b = c[0], c[1]
	}
	return a, b, m
}

func vpInputs0(local bool) (a, b []byte, m SubstitutionMatrix) {
	n, mm, which := vpCase("n"), vpCase("m"), vpCase("matrix")
	switch {
	case which == 0 && local:
		k := vpCase("alpha")
		r := vpCaseOr("range", 8) // scores in [-range, range]: a large range reaches integers no float32 holds
		return vpSeq("a", n, k), vpSeq("b", mm, k), vpMatrix(k, r, -r, 0, vpCase("openLo"), vpCase("openHi"))
	case which == 0:
		k := vpCase("alpha")
		r := vpCaseOr("range", 8)
		return vpSeq("a", n, k), vpSeq("b", mm, k), vpMatrix(k, r, -r, r, vpCase("openLo"), vpCase("openHi"))
	case which == 7:
		return vpAnySeq("a", n), vpAnySeq("b", mm), Levenshtein
	case which == 8 || which == 9 || which == 10:
		// concrete non-integer scores (8: decimal fractions, 9: integers
		// beyond 2^24 and halves), symbolic sequences: the DP runs on IEEE
		// binary64 terms (cap "fp")
		k := vpCase("alpha")
		fm := vpFracMatrix(k, which == 9, local)
		if which == 10 {
			// gaps forbidden: every gap score is -Inf
			for i := 0; i < k; i++ {
				fm[[2]byte{vpAlpha[i], Gap}] = math.Inf(-1)
				fm[[2]byte{Gap, vpAlpha[i]}] = math.Inf(-1)
			}
		}
		return vpSeq("a", n, k), vpSeq("b", mm, k), fm
	}
	return vpProteinSeq("a", n), vpProteinSeq("b", mm), vpShipped(which)
}
