package sequtil

import "bytes"

func vpIsACGT(b byte) bool {
	switch b {
	case 'a', 'c', 'g', 't', 'A', 'C', 'G', 'T':
		return true
	}
	return false
}

// vpCode is the 2-bit code of a base, computed arithmetically (not by table).
func vpCode(b byte) byte {
	switch b | 0x20 {
	case 'a':
		return 0
	case 'c':
		return 1
	case 'g':
		return 2
	}
	return 3
}

func vpUpper(b byte) byte {
	if b >= 'a' && b <= 'z' {
		return b - 32
	}
	return b
}

// VP_C13_Pack: DNATo2Bit appends ceil(n/4) bytes, first base in the top bits,
// dst untouched; DNAFrom2Bit gives back upper(s) + 'A' padding.
func VP_C13_Pack() {
	n, pre, spare := vpCase("n"), vpCase("pre"), vpCase("spare")
	s := vpBytes("s", n)
	for _, b := range s {
		vpAssume(vpIsACGT(b))
	}
	sCopy := append([]byte(nil), s...)
	dst := make([]byte, pre, pre+spare)
	for i := range dst {
		dst[i] = vpByte("dst" + string(rune('0'+i)))
	}
	dstCopy := append([]byte(nil), dst...)
	got := DNATo2Bit(dst, s)
	nb := (n + 3) / 4
	vpAssert(len(got) == pre+nb, "appends ceil(len/4) bytes")
	ok := len(got) == pre+nb
	for i := 0; ok && i < pre; i++ {
		ok = got[i] == dstCopy[i]
	}
	vpAssert(ok, "existing dst content untouched in result")
	vpAssert(bytes.Equal(dst, dstCopy), "caller's view of dst untouched")
	vpAssert(bytes.Equal(s, sCopy), "src untouched")
	ok = len(got) == pre+nb
	for j := 0; ok && j < nb; j++ {
		var w byte
		for q := 0; q < 4; q++ {
			w <<= 2
			if 4*j+q < n {
				w |= vpCode(s[4*j+q])
			}
		}
		ok = ok && got[pre+j] == w
	}
	vpAssert(ok, "packed bytes: A=0 C=1 G=2 T=3, first base most significant")
	if len(got) >= pre {
		back := DNAFrom2Bit(nil, got[pre:])
		vpAssert(len(back) == 4*nb, "unpacked length is a multiple of four")
		ok = len(back) == 4*nb
		for i := 0; ok && i < 4*nb; i++ {
			if i < n {
				ok = ok && back[i] == vpUpper(s[i])
			} else {
				ok = ok && back[i] == 'A'
			}
		}
		vpAssert(ok, "DNAFrom2Bit gives upper(s) followed by 'A' padding")
	}
	vpObserveBytes("got", got)
	vpReach("end")
}

// VP_C13_Unpack: for every packed string p, DNATo2Bit(DNAFrom2Bit(p)) == p.
func VP_C13_Unpack() {
	n := vpCase("n")
	p := vpBytes("p", n)
	txt := DNAFrom2Bit(nil, p)
	vpAssert(len(txt) == 4*n, "four bases per byte")
	back := DNATo2Bit(nil, txt)
	vpAssert(bytes.Equal(back, p), "DNATo2Bit(DNAFrom2Bit(p)) == p")
	vpObserveBytes("txt", txt)
	vpReach("end")
}

// VP_C13_Boundary: DNATo2Bit panics iff a byte is outside aAcCgGtT; Ntoi/Iton.
func VP_C13_Boundary() {
	b := vpByte("b")
	pos := vpCase("pos")
	seq := []byte("acgta")
	seq[pos] = b
	p := vpPanics(func() { DNATo2Bit(nil, seq) })
	vpAssert(p == !vpIsACGT(b), "DNATo2Bit panics iff byte outside aAcCgGtT")
	c := Ntoi(b)
	if vpIsACGT(b) {
		vpAssert(c == int(vpCode(b)), "Ntoi gives the 2-bit code")
		vpAssert(Iton(c) == vpUpper(b), "Iton(Ntoi(b)) is the upper-case base")
	} else {
		vpAssert(c == -1, "Ntoi is -1 outside the four bases")
	}
	k := vpIntRange("k", 0, 3)
	vpAssert(Ntoi(Iton(k)) == k, "Ntoi(Iton(k)) == k")
	vpReach("end")
}

// VP_C13_AnyBytes: for EVERY byte string of n bytes (all 256 values each, so
// also well-formed multi-byte UTF-8 sequences) DNATo2Bit panics iff some byte
// is outside aAcCgGtT.
func VP_C13_AnyBytes() {
	n := vpCase("n")
	src := vpBytes("s", n)
	all := true
	for _, b := range src {
		all = all && vpIsACGT(b)
	}
	p := vpPanics(func() { DNATo2Bit(nil, src) })
	vpAssert(p == !all, "DNATo2Bit panics iff some byte is outside aAcCgGtT")
	vpReach("end")
}

// VP_C13_AfterPanic: a call that panicked on an invalid base (recovered by the
// caller) leaves nothing behind: the next call on valid DNA packs as usual.
func VP_C13_AfterPanic() {
	nb, ng := vpCase("bad"), vpCase("good")
	bad := vpBytes("bad", nb)
	p := vpPanics(func() { DNATo2Bit(nil, bad) })
	good := vpBytes("good", ng)
	for _, b := range good {
		vpAssume(vpIsACGT(b))
	}
	var got []byte
	p2 := vpPanics(func() { got = DNATo2Bit(nil, good) })
	vpAssert(!p2, "valid DNA packs without a panic, also after a rejected input")
	nbytes := (ng + 3) / 4
	ok := !p2 && len(got) == nbytes
	for j := 0; ok && j < nbytes; j++ {
		var w byte
		for q := 0; q < 4; q++ {
			w <<= 2
			if 4*j+q < ng {
				w |= vpCode(good[4*j+q])
			}
		}
		ok = ok && got[j] == w
	}
	vpAssert(ok, "the packed bytes do not depend on an earlier, rejected input")
	vpObserveBool("first-panicked", p)
	vpReach("end")
}

// VP_C13_Scribble: what DNAFrom2Bit and DNATo2Bit return belongs to the
// caller. Overwriting every byte of earlier results (with arbitrary bytes)
// does not change what later calls compute: the unpacking of an arbitrary
// packed string is still the four bases per byte, most significant pair
// first, and it still packs back to itself.
func VP_C13_Scribble() {
	n, m := vpCase("n"), vpCase("m")
	p := make([]byte, n)
	for i := range p {
		p[i] = byte(vpCase("pv") + 37*i) // concrete: the rows of any table behind it are known
	}
	var dst []byte
	if vpCase("pre") == 1 {
		dst = make([]byte, 0, 64)
	}
	txt := DNAFrom2Bit(dst, p)
	junk := vpBytes("junk", len(txt))
	copy(txt, junk)
	s := vpBytes("s", m)
	for _, b := range s {
		vpAssume(vpIsACGT(b))
	}
	packed := DNATo2Bit(nil, s)
	junk2 := vpBytes("junk2", len(packed))
	copy(packed, junk2)
	// once more, on the same packed string and on fresh inputs
	p2 := vpBytes("p2", n)
	for _, q := range [][]byte{p, p2} {
		var txt2, back []byte
		pan := vpPanics(func() {
			txt2 = DNAFrom2Bit(nil, q)
			back = DNATo2Bit(nil, txt2)
		})
		vpAssert(!pan, "unpacked text packs without a panic after earlier results were overwritten")
		ok := !pan && len(txt2) == 4*len(q)
		for i := 0; ok && i < len(q); i++ {
			for k := 0; k < 4; k++ {
				ok = ok && txt2[4*i+k] == "ACGT"[(q[i]>>(6-2*k))&3]
			}
		}
		vpAssert(ok, "DNAFrom2Bit does not depend on what callers did to earlier results")
		vpAssert(pan || bytes.Equal(back, q), "DNATo2Bit(DNAFrom2Bit(p)) == p after earlier results were overwritten")
	}
	s2 := vpBytes("s2", m)
	for _, b := range s2 {
		vpAssume(vpIsACGT(b))
	}
	again := DNATo2Bit(nil, s2)
	ok := len(again) == (m+3)/4
	for j := 0; ok && j < len(again); j++ {
		var w byte
		for q := 0; q < 4; q++ {
			w <<= 2
			if 4*j+q < m {
				w |= vpCode(s2[4*j+q])
			}
		}
		ok = ok && again[j] == w
	}
	vpAssert(ok, "DNATo2Bit does not depend on what callers did to earlier results")
	vpReach("end")
}
