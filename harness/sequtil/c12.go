package sequtil

import "bytes"

// vpComplement is an independent complement table (switch, not the package's
// 256-entry table).
func vpComplement(b byte) (byte, bool) {
	switch b {
	case 'a':
		return 't', true
	case 'c':
		return 'g', true
	case 'g':
		return 'c', true
	case 't':
		return 'a', true
	case 'n':
		return 'n', true
	case 'A':
		return 'T', true
	case 'C':
		return 'G', true
	case 'G':
		return 'C', true
	case 'T':
		return 'A', true
	case 'N':
		return 'N', true
	}
	return 0, false
}

func vpIsDNA10(b byte) bool {
	_, ok := vpComplement(b)
	return ok
}

// VP_C12_RevComp: ReverseComplement appends the reversed complement to dst,
// leaves src and dst's existing content alone, is an involution, and agrees
// with ReverseComplementString.
func VP_C12_RevComp() {
	n, pre, spare := vpCase("n"), vpCase("pre"), vpCase("spare")
	src := vpBytes("src", n)
	for _, b := range src {
		vpAssume(vpIsDNA10(b))
	}
	srcCopy := append([]byte(nil), src...)
	dstBacking := make([]byte, pre, pre+spare)
	for i := range dstBacking {
		dstBacking[i] = vpByte("dst" + string(rune('0'+i)))
	}
	dstCopy := append([]byte(nil), dstBacking...)

	got := ReverseComplement(dstBacking, src)

	vpAssert(len(got) == pre+n, "length is len(dst)+len(src)")
	ok := len(got) == pre+n
	for i := 0; ok && i < pre; i++ {
		ok = got[i] == dstCopy[i]
	}
	vpAssert(ok, "dst prefix preserved in result")
	ok = true
	for i := 0; i < n && pre+i < len(got); i++ {
		c, _ := vpComplement(src[n-1-i])
		ok = ok && got[pre+i] == c
	}
	vpAssert(ok, "reversed complement, case preserved")
	vpAssert(bytes.Equal(src, srcCopy), "src untouched")
	vpAssert(bytes.Equal(dstBacking, dstCopy), "caller's view of dst untouched")

	twice := ReverseComplement(nil, got[pre:])
	vpAssert(bytes.Equal(twice, srcCopy), "involution")
	vpAssert(ReverseComplementString(string(srcCopy)) == string(got[pre:]), "string variant agrees")
	vpObserveBytes("got", got)
	vpReach("end")
}

// VP_C12_PanicBoundary: one byte over all 256 values: both functions panic
// iff the byte is outside aAcCgGtTnN.
func VP_C12_PanicBoundary() {
	b := vpByte("b")
	want := !vpIsDNA10(b)
	p1 := vpPanics(func() { ReverseComplement(nil, []byte{b}) })
	p2 := vpPanics(func() { ReverseComplementString(string([]byte{b})) })
	vpAssert(p1 == want, "ReverseComplement panics iff byte outside aAcCgGtTnN")
	vpAssert(p2 == want, "ReverseComplementString panics iff byte outside aAcCgGtTnN")
	// embedded in a longer sequence as well
	pos := vpCase("pos")
	seq := []byte("acgtn")
	seq[pos] = b
	p3 := vpPanics(func() { ReverseComplement(nil, seq) })
	vpAssert(p3 == want, "ReverseComplement panics iff some byte is outside the alphabet")
	vpReach("end")
}

func vpRC(s []byte) []byte {
	out := make([]byte, len(s))
	for i := range s {
		c, _ := vpComplement(s[len(s)-1-i])
		out[i] = c
	}
	return out
}

func vpLexMin(a, b []byte) []byte {
	for i := range a {
		if a[i] != b[i] {
			if a[i] < b[i] {
				return a
			}
			return b
		}
	}
	return a
}

// VP_C12_Canonical: CanonicalSubsequences(seq,k) yields len(seq)-k+1 items,
// the i-th being the lexicographic minimum of seq[i:i+k] and its reverse
// complement; the reverse complement of seq yields the same items reversed.
func VP_C12_Canonical() {
	n, k := vpCase("n"), vpCase("k")
	seq := vpBytes("seq", n)
	for _, b := range seq {
		vpAssume(vpIsDNA10(b))
	}
	orig := append([]byte(nil), seq...)
	var items, kept [][]byte
	for km := range CanonicalSubsequences(seq, k) {
		items = append(items, append([]byte(nil), km...))
		kept = append(kept, km) // the yielded slice itself
	}
	stable := len(kept) == len(items)
	for i := 0; stable && i < len(items); i++ {
		stable = bytes.Equal(kept[i], items[i])
	}
	vpAssert(stable, "items collected during the iteration still hold their values afterwards")
	want := n - k + 1
	if want < 0 {
		want = 0
	}
	vpAssert(len(items) == want, "number of items is max(0, len-k+1)")
	ok := len(items) == want
	for i := 0; ok && i < want; i++ {
		w := seq[i : i+k]
		m := vpLexMin(w, vpRC(w))
		ok = ok && bytes.Equal(items[i], m)
	}
	vpAssert(ok, "item i is the smaller of the window and its reverse complement")
	vpAssert(bytes.Equal(seq, orig), "seq untouched")
	var ritems [][]byte
	for km := range CanonicalSubsequences(vpRC(orig), k) {
		ritems = append(ritems, append([]byte(nil), km...))
	}
	ok = len(ritems) == len(items)
	for i := 0; ok && i < len(items); i++ {
		ok = ok && bytes.Equal(ritems[len(items)-1-i], items[i])
	}
	vpAssert(ok, "reverse complement yields the same items in opposite order")
	// rerun=1: ONE iterator value ranged over three times - abandoned after a
	// nondeterministic number of items, then twice in full: every range over
	// it yields the items from the start
	if vpCaseOr("rerun", 0) == 1 {
		it := CanonicalSubsequences(seq, k)
		stop := vpChoice("stopAt", want+1)
		cnt := 0
		for range it {
			if cnt == stop {
				break
			}
			cnt++
		}
		for pass := 0; pass < 2; pass++ {
			var again [][]byte
			for km := range it {
				again = append(again, append([]byte(nil), km...))
			}
			ok = len(again) == want
			for i := 0; ok && i < want; i++ {
				ok = ok && bytes.Equal(again[i], items[i])
			}
			vpAssert(ok, "ranging again over the same iterator value yields the same items from the start")
		}
	}
	// the same buffer refilled with another sequence of the same length (a
	// read buffer re-used for the next read) and scanned again, with no call on
	// another slice in between
	if vpCaseOr("refill", 0) == 1 {
		next := vpBytes("next", n)
		for _, b := range next {
			vpAssume(vpIsDNA10(b))
		}
		for range CanonicalSubsequences(seq, k) { // the latest call is on seq
		}
		copy(seq, next)
		var again [][]byte
		for km := range CanonicalSubsequences(seq, k) {
			again = append(again, append([]byte(nil), km...))
		}
		ok = len(again) == want
		for i := 0; ok && i < want; i++ {
			w := next[i : i+k]
			ok = ok && bytes.Equal(again[i], vpLexMin(w, vpRC(w)))
		}
		vpAssert(ok, "a buffer refilled with another sequence gives that sequence's canonical k-mers")
	}
	vpReach("end")
}

// VP_C18_Canonical: CanonicalSubsequences can be stopped after any item.
func VP_C18_Canonical() {
	n, k := vpCase("n"), vpCase("k")
	seq := vpBytes("seq", n)
	for _, b := range seq {
		vpAssume(vpIsDNA10(b))
	}
	var full [][]byte
	for km := range CanonicalSubsequences(seq, k) {
		full = append(full, append([]byte(nil), km...))
	}
	stop := vpChoice("stop", len(full)+1)
	var got [][]byte
	after := 0
	declined := false
	p := vpPanics(func() {
		CanonicalSubsequences(seq, k)(func(km []byte) bool {
			if declined {
				after++
				return false
			}
			got = append(got, append([]byte(nil), km...))
			if len(got) > stop {
				declined = true
				return false
			}
			return true
		})
	})
	vpAssert(!p, "stopping early does not panic")
	vpAssert(after == 0, "no callback after the consumer declined")
	want := full
	if stop+1 < len(full) {
		want = full[:stop+1]
	}
	ok := len(got) == len(want)
	for i := 0; ok && i < len(want); i++ {
		ok = bytes.Equal(got[i], want[i])
	}
	vpAssert(ok, "the items seen are the leading items of an uninterrupted run")
	vpReach("end")
}

// VP_C12_StringBytes: for every byte string of n bytes over all 256 values
// (so also well-formed multi-byte UTF-8), ReverseComplementString panics iff
// some byte is outside aAcCgGtTnN - exactly when ReverseComplement does - and
// otherwise returns the same bytes.
func VP_C12_StringBytes() {
	n := vpCase("n")
	s := vpBytes("s", n)
	allOK := true
	for _, b := range s {
		allOK = allOK && vpIsDNA10(b)
	}
	var r1 []byte
	var r2 string
	p1 := vpPanics(func() { r1 = ReverseComplement(nil, s) })
	p2 := vpPanics(func() { r2 = ReverseComplementString(string(s)) })
	vpAssert(p1 == !allOK, "ReverseComplement panics iff some byte is outside aAcCgGtTnN")
	vpAssert(p2 == !allOK, "ReverseComplementString panics iff some byte is outside aAcCgGtTnN")
	if !p1 && !p2 {
		vpAssert(string(r1) == r2, "ReverseComplementString agrees with ReverseComplement")
	}
	vpReach("end")
}

// VP_C12_AfterPanic: a call that panicked on a byte outside aAcCgGtTnN
// (recovered by the caller) leaves nothing behind: the next calls of
// ReverseComplement and ReverseComplementString on a valid sequence give the
// reverse complement of that sequence and nothing else.
func VP_C12_AfterPanic() {
	nb, ng := vpCase("bad"), vpCase("good")
	bad := vpBytes("bad", nb)
	p1 := vpPanics(func() { ReverseComplementString(string(bad)) })
	p2 := vpPanics(func() { ReverseComplement(nil, bad) })
	good := vpBytes("good", ng)
	for _, b := range good {
		vpAssume(vpIsDNA10(b))
	}
	var gs string
	var gb []byte
	p3 := vpPanics(func() {
		gs = ReverseComplementString(string(good))
		gb = ReverseComplement(nil, good)
	})
	vpAssert(!p3, "a valid sequence is accepted, also after a rejected one")
	want := vpRC(good)
	vpAssert(p3 || (gs == string(want) && bytes.Equal(gb, want)), "the result does not depend on an earlier, rejected input")
	vpObserveBool("first-panicked", p1 || p2)
	vpReach("end")
}
