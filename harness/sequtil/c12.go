package sequtil

import "bytes"

// vpComplement is an independent complement table (switch, not the package's
// 256-entry table).
func vpComplement(b byte) (byte, bool) {
	switch b {
	case 'a':
		return 't', true
	case 'c':
		return 'g', true
	case 'g':
		return 'c', true
	case 't':
		return 'a', true
	case 'n':
		return 'n', true
	case 'A':
		return 'T', true
	case 'C':
		return 'G', true
	case 'G':
		return 'C', true
	case 'T':
		return 'A', true
	case 'N':
		return 'N', true
	}
	return 0, false
}

func vpIsDNA10(b byte) bool {
	_, ok := vpComplement(b)
	return ok
}

// VP_C12_RevComp: ReverseComplement appends the reversed complement to dst,
// leaves src and dst's existing content alone, is an involution, and agrees
// with ReverseComplementString.
func VP_C12_RevComp() {
	n, pre, spare := vpCase("n"), vpCase("pre"), vpCase("spare")
	src := vpBytes("src", n)
	for _, b := range src {
		vpAssume(vpIsDNA10(b))
	}
	srcCopy := append([]byte(nil), src...)
	dstBacking := make([]byte, pre, pre+spare)
	for i := range dstBacking {
		dstBacking[i] = vpByte("dst" + string(rune('0'+i)))
	}
	dstCopy := append([]byte(nil), dstBacking...)

	got := ReverseComplement(dstBacking, src)

	vpAssert(len(got) == pre+n, "length is len(dst)+len(src)")
	ok := len(got) == pre+n
	for i := 0; ok && i < pre; i++ {
		ok = got[i] == dstCopy[i]
	}
	vpAssert(ok, "dst prefix preserved in result")
	ok = true
	for i := 0; i < n && pre+i < len(got); i++ {
		c, _ := vpComplement(src[n-1-i])
		ok = ok && got[pre+i] == c
	}
	vpAssert(ok, "reversed complement, case preserved")
	vpAssert(bytes.Equal(src, srcCopy), "src untouched")
	vpAssert(bytes.Equal(dstBacking, dstCopy), "caller's view of dst untouched")

	twice := ReverseComplement(nil, got[pre:])
	vpAssert(bytes.Equal(twice, srcCopy), "involution")
	vpAssert(ReverseComplementString(string(srcCopy)) == string(got[pre:]), "string variant agrees")
	vpObserveBytes("got", got)
	vpReach("end")
}
