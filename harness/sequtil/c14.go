package sequtil

import "bytes"

// NCBI translation table 1, codons in TCAG order.
const vpNCBI1 = "FFLLSSSSYY**CC*WLLLLPPPPHHQQRRRRIIIMTTTTNNKKSSRRVVVVAAAADDEEGGGG"

func vpTCAG(b byte) int {
	switch b | 0x20 {
	case 't':
		return 0
	case 'c':
		return 1
	case 'a':
		return 2
	}
	return 3
}

func vpAmino(c0, c1, c2 byte) byte {
	return vpNCBI1[16*vpTCAG(c0)+4*vpTCAG(c1)+vpTCAG(c2)]
}

// VP_C14_Codons: all 64 codons x 8 case patterns against the NCBI table;
// concatenation law; dst prefix untouched.
func VP_C14_Codons() {
	nc := vpCase("codons")
	var src []byte
	if nc >= 100 {
		// a long sequence: symbolic bases at both ends and around every
		// multiple of 256 (block sizes 256, 512, 1024, ...), a fixed filler
		// elsewhere
		src = make([]byte, 3*nc)
		for i := range src {
			src[i] = "ACGTTGCA"[i&7]
			if i < 3 || i >= len(src)-3 || i%256 >= 253 || i%256 < 3 {
				src[i] = vpByte("src[" + vpNum(i) + "]")
			}
		}
	} else {
		src = vpBytes("src", 3*nc)
	}
	for _, b := range src {
		vpAssume(vpIsACGT(b))
	}
	srcCopy := append([]byte(nil), src...)
	pre := vpCase("pre")
	dst := make([]byte, pre, pre+vpCase("spare"))
	for i := range dst {
		dst[i] = vpByte("dst" + string(rune('0'+i)))
	}
	dstCopy := append([]byte(nil), dst...)
	got := Translate(dst, src)
	vpAssert(len(got) == pre+nc, "one letter appended per codon")
	ok := len(got) == pre+nc
	for i := 0; ok && i < pre; i++ {
		ok = got[i] == dstCopy[i]
	}
	vpAssert(ok, "dst prefix untouched")
	vpAssert(bytes.Equal(dst, dstCopy), "caller's view of dst untouched")
	ok = len(got) == pre+nc
	for i := 0; ok && i < nc; i++ {
		ok = ok && got[pre+i] == vpAmino(src[3*i], src[3*i+1], src[3*i+2])
	}
	vpAssert(ok, "standard genetic code (NCBI table 1)")
	vpAssert(bytes.Equal(src, srcCopy), "src untouched")
	if nc >= 2 {
		a := Translate(nil, src[:3])
		b := Translate(nil, src[3:])
		vpAssert(bytes.Equal(append(a, b...), got[pre:]), "translation of a concatenation is the concatenation")
	}
	vpObserveBytes("got", got)
	vpReach("end")
}

// VP_C14_Panics: Translate panics iff len%3 != 0 or some base is not ACGT.
func VP_C14_Panics() {
	n := vpCase("n")
	src := vpBytes("src", n)
	allOK := true
	for _, b := range src {
		allOK = allOK && vpIsACGT(b)
	}
	p := vpPanics(func() { Translate(nil, src) })
	vpAssert(p == (n%3 != 0 || !allOK), "panics iff length not divisible by 3 or a non-ACGT base")
	vpReach("end")
}

// VP_C14_Frames: TranslateReadingFrames works for every length and frame i
// equals Translate(seq[i:] cut to a multiple of 3).
func VP_C14_Frames() {
	n := vpCase("n")
	var seq []byte
	if n >= 300 {
		seq = make([]byte, n)
		for i := range seq {
			seq[i] = "ACGTTGCA"[i&7]
			if i < 3 || i >= n-3 || i%256 >= 253 || i%256 < 3 {
				seq[i] = vpByte("seq[" + vpNum(i) + "]")
			}
		}
	} else {
		seq = vpBytes("seq", n)
	}
	for _, b := range seq {
		vpAssume(vpIsACGT(b))
	}
	var res [3][]byte
	p := vpPanics(func() { res = TranslateReadingFrames(seq) })
	vpAssert(!p, "TranslateReadingFrames does not panic")
	if !p {
		for i := 0; i < 3; i++ {
			var sub []byte
			if i <= n {
				sub = seq[i:]
			}
			sub = sub[:len(sub)/3*3]
			want := make([]byte, 0, len(sub)/3)
			for j := 0; j+2 < len(sub); j += 3 {
				want = append(want, vpAmino(sub[j], sub[j+1], sub[j+2]))
			}
			vpAssert(bytes.Equal(res[i], want), "frame i is the translation of seq[i:] cut to a multiple of 3")
		}
	}
	vpReach("end")
}

// VP_C14_AminoName: accepts exactly the letters of AminoAcids in either case.
func VP_C14_AminoName() {
	b := vpByte("b")
	u := vpUpper(b)
	in := false
	for i := 0; i < len(AminoAcids); i++ {
		in = in || AminoAcids[i] == u
	}
	var code, name string
	p := vpPanics(func() { code, name = AminoName(b) })
	vpAssert(p == !in, "AminoName panics iff the letter is not listed in AminoAcids")
	if !p {
		vpAssert(len(code) > 0 && len(name) > 0, "code and name are non-empty")
	}
	vpReach("end")
}
