package regions


func vpIntsEq(a, b []int) bool {
	if len(a) != len(b) {
		return false
	}
	r := true
	for i := range a {
		r = r && a[i] == b[i]
	}
	return r
}

// VP_C16_At: At(i) is the ascending list of x with starts[x] <= i < ends[x];
// returned slices are private copies.
func VP_C16_At() {
	n := vpCase("n")
	starts, ends := make([]int, n), make([]int, n)
	for x := 0; x < n; x++ {
		starts[x] = vpInt("start" + vpDigit(x))
		ends[x] = vpInt("end" + vpDigit(x))
		if sm := vpCaseOr("small", 0); sm > 0 {
			// deeper overlap at an affordable cost: starts in [0, small],
			// one common end behind them (every order of the starts, any
			// number of intervals active at once)
			vpAssume(0 <= starts[x] && starts[x] <= sm)
			ends[x] = sm + 1 + vpCaseOr("endGap", 0)*x
			if vpCaseOr("freeEnds", 0) == 1 {
				// ends symbolic as well, in (start, small+1]: intervals come
				// and go in every order, so different active sets of the same
				// size occur in one index
				ends[x] = vpInt("end" + vpDigit(x))
				vpAssume(starts[x] < ends[x] && ends[x] <= sm+1)
			}
		}
		if ty := vpCaseOr("tiny", 0); ty > 0 {
			// every coordinate in [0, tiny]: all orderings of the 2n
			// coordinates, inverted and empty intervals and ties included,
			// at a cost that allows one more interval
			vpAssume(0 <= starts[x] && starts[x] <= ty && 0 <= ends[x] && ends[x] <= ty)
		}
		if vpCase("exclDegenerate") == 1 {
			// known-finding class D2: empty or inverted intervals
			vpAssume(starts[x] < ends[x])
		}
	}
	if g := vpCaseOr("geom", 0); g > 0 && n == 4 {
		// a fixed geometry - two separate pairs of overlapping intervals -
		// under every assignment of the four intervals to the indices 0..3
		// (the query stays symbolic): different active sets of equal size, and
		// of equal index sum, occur in different pieces of one index
		gs, ge := []int{0, 5, 20, 25}, []int{10, 15, 30, 35}
		if g == 2 {
			gs, ge = []int{0, 2, 4, 30}, []int{40, 6, 8, 34} // nested, then a late one
		}
		if g == 3 {
			gs, ge = []int{0, 30, 12, 40}, []int{20, 10, 15, 45} // an inverted interval among nested and disjoint ones
		}
		if g == 4 {
			gs, ge = []int{0, 10, 10, 5}, []int{10, 10, 20, 5} // abutting intervals and two empty ones on their seam and inside
		}
		perm := []int{0, 1, 2, 3}
		k := vpChoice("perm", 24)
		for i := 0; i < 3; i++ {
			f := []int{6, 2, 1}[i]
			j := i + k/f
			k %= f
			perm[i], perm[j] = perm[j], perm[i]
		}
		for x := 0; x < 4; x++ {
			starts[x], ends[x] = gs[perm[x]], ge[perm[x]]
		}
	}
	sc, ec := append([]int(nil), starts...), append([]int(nil), ends...)
	idx := NewIndex(starts, ends)
	vpAssert(vpIntsEq(starts, sc) && vpIntsEq(ends, ec), "NewIndex leaves its arguments alone")
	// others=k: k further indexes are built (over other intervals) before the
	// first one is asked anything; an index does not depend on what is built
	// after it, and the later ones answer by the same rule
	var others []*Index
	var ostarts, oends [][]int
	for o := 0; o < vpCaseOr("others", 0); o++ {
		os, oe := []int{3, 1, 7, 2}, []int{9, 4, 8, 20}
		if o%2 == 1 {
			os, oe = []int{6, 5}, []int{11, 6}
		}
		ostarts, oends = append(ostarts, os), append(oends, oe)
		others = append(others, NewIndex(append([]int(nil), os...), append([]int(nil), oe...)))
	}
	defer func() {
		for o, ix := range others {
			for oq := -1; oq <= 21; oq++ { // every position around the concrete intervals
				var w []int
				for x := range ostarts[o] {
					if ostarts[o][x] <= oq && oq < oends[o][x] {
						w = append(w, x)
					}
				}
				vpAssert(vpIntsEq(ix.At(oq), w), "an index built later answers by the same rule")
			}
		}
		if len(others) > 0 {
			vpReach("others-end")
		}
	}()
	q := vpInt("q")
	var want []int
	for x := 0; x < n; x++ {
		if sc[x] <= q && q < ec[x] {
			want = append(want, x)
		}
	}
	got := idx.At(q)
	vpAssert(vpIntsEq(got, want), "At(i) is exactly the ascending list of covering intervals")
	if len(want) == 0 {
		vpAssert(got == nil, "nothing is returned when no interval covers i")
	}
	// privacy: scribble over the result, ask again
	for k := range got {
		got[k] = -1 - got[k]
	}
	again := idx.At(q)
	vpAssert(vpIntsEq(again, want), "mutating a returned slice does not change later answers")
	if vpCase("second") == 0 {
		vpReach("end")
		return
	}
	// a second, different position still answers correctly after the mutation
	q2 := vpInt("q2")
	var want2 []int
	for x := 0; x < n; x++ {
		if sc[x] <= q2 && q2 < ec[x] {
			want2 = append(want2, x)
		}
	}
	vpAssert(vpIntsEq(idx.At(q2), want2), "At at a second position")
	vpReach("end")
}

// VP_C16_Lengths: lists of different lengths make NewIndex panic.
func VP_C16_Lengths() {
	ns, ne := vpCase("ns"), vpCase("ne")
	starts, ends := make([]int, ns), make([]int, ne)
	for x := range starts {
		starts[x] = vpInt("start" + vpDigit(x))
	}
	for x := range ends {
		ends[x] = vpInt("end" + vpDigit(x))
	}
	p := vpPanics(func() { NewIndex(starts, ends) })
	vpAssert(p == (ns != ne), "NewIndex panics iff the lists have different lengths")
	vpReach("end")
}

// VP_C16_ReadOnly: At stores only into memory it allocated itself, so
// concurrent readers cannot race. Symbolically this is the executor's write
// log between the mark and the end; natively the same calls are made from
// several goroutines and the replay runs under the race detector.
func VP_C16_ReadOnly() {
	n := vpCase("n")
	starts, ends := make([]int, n), make([]int, n)
	for x := 0; x < n; x++ {
		starts[x] = vpInt("start" + vpDigit(x))
		ends[x] = vpInt("end" + vpDigit(x))
		if sm := vpCaseOr("small", 0); sm > 0 {
			// deeper overlap at an affordable cost: starts in [0, small],
			// one common end behind them (every order of the starts, any
			// number of intervals active at once)
			vpAssume(0 <= starts[x] && starts[x] <= sm)
			ends[x] = sm + 1 + vpCaseOr("endGap", 0)*x
		}
	}
	idx := NewIndex(starts, ends)
	q, q2 := vpInt("q"), vpInt("q2")
	vpWriteMark()
	r1 := idx.At(q)
	r2 := idx.At(q2)
	r3 := idx.At(q)
	w := vpOldWrites()
	vpAssert(w == 0, "At stores only into memory it allocated itself (no write to the index or to earlier results)")
	vpAssert(vpIntsEq(r1, r3), "the same position gives the same answer again")
	_ = r2
	if !vpSymbolic() {
		done := make(chan bool)
		for g := 0; g < 4; g++ {
			go func() {
				for k := 0; k < 50; k++ {
					idx.At(q)
					idx.At(q2)
				}
				done <- true
			}()
		}
		for g := 0; g < 4; g++ {
			<-done
		}
	}
	vpReach("end")
}
