package mash

import (
	"hash"
	"math"
	"slices"

	"github.com/fluhus/biostuff/sequtil"
	"github.com/fluhus/gostuff/minhash"
	"github.com/spaolacci/murmur3"
)

// vpHash is the hash of a k-mer: symbolically an uninterpreted function of the
// bytes (deterministic, otherwise arbitrary); natively the real murmur3 with
// the package seed, so that replays run against the real hash.
func vpHash(b []byte) uint64 {
	h := murmur3.New64WithSeed(Seed)
	h.Write(b)
	return h.Sum64()
}

// vpHasher replaces murmur3.New64WithSeed symbolically.
type vpHasher struct {
	buf  []byte
	seed uint32 // the seed the hasher was created with (Reset keeps it, as murmur3's does)
}

func (h *vpHasher) Write(p []byte) (int, error) { h.buf = append(h.buf, p...); return len(p), nil }
func (h *vpHasher) Sum(b []byte) []byte           { vpUnsupported("Sum"); return nil }
func (h *vpHasher) Reset()                        { h.buf = nil }
func (h *vpHasher) Size() int                     { return 8 }
func (h *vpHasher) BlockSize() int                { return 1 }
func (h *vpHasher) Sum64() uint64                 { return vpHS(h.seed, h.buf) }

// vpPlain (set by VP_C17_Long): for sequences of tens of thousands of concrete
// bases the hash is, symbolically, one fixed mixing function instead of an
// uninterpreted one (65 000 applications of an uninterpreted function need
// 2*10^9 consistency constraints). The properties hold for every hash
// function, so this is one instance of them; natively the real murmur3 runs.
var vpPlain bool

func vpMix(b []byte) uint64 {
	h := uint64(14695981039346656037)
	for _, c := range b {
		h ^= uint64(c)
		h *= 1099511628211
	}
	return h ^ h>>29
}

// vpH is the hash of a k-mer under the package's current Seed: natively the
// real murmur3; symbolically the uninterpreted function applied to the four
// seed bytes followed by the k-mer (a hasher created under another seed is a
// different function).
func vpH(b []byte) uint64 {
	if vpSymbolic() {
		return vpHS(Seed, b)
	}
	return vpHash(b)
}

func vpHS(seed uint32, b []byte) uint64 {
	key := append([]byte{byte(seed >> 24), byte(seed >> 16), byte(seed >> 8), byte(seed)}, b...)
	if vpPlain {
		return vpMix(key)
	}
	return vpHash(key)
}

func vpNewHash64(seed uint32) hash.Hash64 { return &vpHasher{seed: seed} }

func vpDNA(name string, n int) []byte {
	s := vpBytes(name, n)
	for _, c := range s {
		vpAssume(c == 'a' || c == 'c' || c == 'g' || c == 't' || c == 'A' || c == 'C' || c == 'G' || c == 'T')
	}
	return s
}

func vpUpperSeq(s []byte) []byte {
	o := make([]byte, len(s))
	for i, c := range s {
		if c >= 'a' {
			c -= 32
		}
		o[i] = c
	}
	return o
}

func vpRCu(s []byte) []byte {
	o := make([]byte, len(s))
	for i := range s {
		var c byte
		switch s[len(s)-1-i] {
		case 'A':
			c = 'T'
		case 'C':
			c = 'G'
		case 'G':
			c = 'C'
		default:
			c = 'A'
		}
		o[i] = c
	}
	return o
}

// vpBottom is the brute-force reference: the n smallest distinct hashes of the
// canonical upper-case k-mers of all sequences, in descending order.
func vpBottom(n, k int, seqs [][]byte) []uint64 {
	var hs []uint64
	for _, s := range seqs {
		u := vpUpperSeq(s)
		for i := 0; i+k <= len(u); i++ {
			w := u[i : i+k]
			r := vpRCu(w)
			// lexicographically smaller of w and r
			pick := w
			for j := range w {
				if w[j] != r[j] {
					if r[j] < w[j] {
						pick = r
					}
					break
				}
			}
			h := vpH(pick)
			dup := false
			for _, x := range hs {
				dup = dup || x == h
			}
			if !dup {
				hs = append(hs, h)
			}
		}
	}
	// sort ascending (insertion sort), keep n smallest, reverse
	for i := 1; i < len(hs); i++ {
		for j := i; j > 0 && hs[j] < hs[j-1]; j-- {
			hs[j], hs[j-1] = hs[j-1], hs[j]
		}
	}
	if len(hs) > n {
		hs = hs[:n]
	}
	out := make([]uint64, len(hs))
	for i := range hs {
		out[len(hs)-1-i] = hs[i]
	}
	return out
}

func vpSameU64(a, b []uint64) bool {
	if len(a) != len(b) {
		return false
	}
	ok := true
	for i := range a {
		ok = ok && a[i] == b[i]
	}
	return ok
}

// VP_C17_Sketch: Sequences(n,k,seqs) is the brute-force bottom-n sketch, and
// is unchanged by reverse-complementing, case flipping, reordering and
// incremental construction; a smaller sketch is the tail of a larger one.
func VP_C17_Sketch() {
	n, k, ns, L := vpCase("n"), vpCase("k"), vpCase("seqs"), vpCase("len")
	var seqs [][]byte
	for i := 0; i < ns; i++ {
		li := L
		if i > 0 {
			li = vpCaseOr("len2", L) // later sequences may be shorter or longer than the first
		}
		seqs = append(seqs, vpDNA("s"+vpDigit(i), li))
	}
	if vpCaseOr("reseed", 0) == 1 {
		// the package's Seed changes between calls: sketches are made with
		// the seed current at the time of the call
		defer func(old uint32) { Seed = old }(Seed)
		Seed = 7
		Sequences(n, k, seqs...)
		Seed = 99
	}
	want := vpBottom(n, k, seqs)
	got := Sequences(n, k, seqs...).View()
	vpAssert(vpSameU64(got, want), "the n smallest distinct hashes of the canonical upper-cased k-mers, descending")
	switch vpCase("variant") {
	case 1: // reverse complement of the first sequence (upper-cased, equivalent content)
		v := append([][]byte{vpRCu(vpUpperSeq(seqs[0]))}, seqs[1:]...)
		vpAssert(vpSameU64(Sequences(n, k, v...).View(), want), "unchanged by reverse-complementing a sequence")
	case 2: // case flipped
		f := make([]byte, len(seqs[0]))
		for i, c := range seqs[0] {
			f[i] = c ^ 0x20
		}
		v := append([][]byte{f}, seqs[1:]...)
		vpAssert(vpSameU64(Sequences(n, k, v...).View(), want), "unchanged by letter case")
	case 3: // reordered, and built incrementally
		if ns >= 2 {
			v := [][]byte{seqs[1], seqs[0]}
			vpAssert(vpSameU64(Sequences(n, k, v...).View(), want), "unchanged by reordering the sequences")
		}
		mh := minhash.New[uint64](n)
		for _, s := range seqs {
			Add(mh, k, s)
		}
		vpAssert(vpSameU64(mh.View(), want), "unchanged when built incrementally with Add")
	case 4: // a smaller sketch is the tail of a larger one
		big := Sequences(n+1, k, seqs...).View()
		small := got
		tail := big
		if len(big) > len(small) {
			tail = big[len(big)-len(small):]
		}
		vpAssert(vpSameU64(small, tail), "a smaller sketch is the tail of a larger one")
	}
	_ = sequtil.AminoAcids
	vpReach("end")
}

// VP_C17_Distance: for two full sketches of equal size Distance is symmetric,
// in [0,1], 0 for identical content, and equals min(1, -ln(2j/(1+j))/k) with j
// the shared fraction of the n smallest values of the union.
func VP_C17_Distance() {
	n, k := vpCase("n"), vpCase("k")
	mk := func(tag string) (*minhash.MinHash[uint64], []uint64) {
		mh := minhash.New[uint64](n)
		var vals []uint64
		for i := 0; i < n; i++ {
			v := vpUint64(tag + vpDigit(i))
			for _, o := range vals {
				vpAssume(o != v)
			}
			vals = append(vals, v)
			mh.Push(v)
		}
		mh.Sort()
		return mh, vals
	}
	x, xv := mk("x")
	y, yv := mk("y")
	d1, d2 := Distance(x, y, k), Distance(y, x, k)
	vpAssert(d1 == d2, "symmetric")
	vpAssert(d1 >= 0 && d1 <= 1, "in [0,1]")
	// j: shared fraction of the n smallest values of the union
	var union []uint64
	union = append(union, xv...)
	for _, v := range yv {
		dup := false
		for _, o := range xv {
			dup = dup || o == v
		}
		if !dup {
			union = append(union, v)
		}
	}
	for i := 1; i < len(union); i++ {
		for j := i; j > 0 && union[j] < union[j-1]; j-- {
			union[j], union[j-1] = union[j-1], union[j]
		}
	}
	if len(union) > n {
		union = union[:n]
	}
	shared := 0
	for _, u := range union {
		inx, iny := false, false
		for _, o := range xv {
			inx = inx || o == u
		}
		for _, o := range yv {
			iny = iny || o == u
		}
		if inx && iny {
			shared++
		}
	}
	shared = vpConcrete(shared)
	j := float64(shared) / float64(len(union))
	want := float64(1)
	if j != 0 {
		want = math.Min(1, -math.Log(2*j/(1+j))/float64(k))
	}
	// (the statement gives the value as a real-number formula; an
	// implementation may evaluate it in another order, so agreement is asked
	// up to rounding, not bit for bit)
	vpAssert(math.Abs(d1-want) <= 1e-12, "equals min(1, -ln(2j/(1+j))/k)")
	if shared == n {
		vpAssert(d1 == 0, "0 for identical content")
	}
	vpAssert(Distance(x, x, k) == 0, "0 against itself")
	vpObserveInt("shared", shared)
	vpReach("end")
}

// VP_C17_Monotone: FromJaccard is non-increasing in j.
//
// mode 1 takes two arbitrary float64 bit patterns in [0,1] (native replay of
// the known finding D11: symbolic float64 arithmetic with a logarithm is
// outside what the solvers decide, see DESIGN). mode 0 restricts j to the
// similarities a sketch comparison can produce, s/n with 0 <= s <= n: after
// the executor has forked over s1 < s2 every value is concrete and the real
// FromJaccard, including math.Log, is evaluated on the host: this sub-check is
// decided by exhaustive concrete execution inside the executor, not by a
// solver query, and is reported as such.
func VP_C17_Monotone() {
	k := vpCase("k")
	var j1, j2 float64
	if mode := vpCase("mode"); mode == 1 {
		j1 = math.Float64frombits(vpUint64("j1bits"))
		j2 = math.Float64frombits(vpUint64("j2bits"))
		vpAssume(0 <= j1 && j1 <= j2 && j2 <= 1)
	} else if mode == 2 {
		// arbitrary float64 similarities within one binade [2^-e, 2^-e+1)
		// (the binade splits the search and bounds the solver's work)
		j1, j2 = vpFloat64("j1"), vpFloat64("j2")
		lo := math.Ldexp(1, -vpCase("e"))
		vpAssume(lo <= j1 && j1 <= j2 && j2 <= 2*lo && j2 <= 1)
	} else {
		n := vpCase("n")
		s2 := vpConcrete(vpIntRange("s2", 0, n))
		s1 := vpConcrete(vpIntRange("s1", 0, s2))
		j1, j2 = float64(s1)/float64(n), float64(s2)/float64(n)
	}
	f1, f2 := FromJaccard(j1, k), FromJaccard(j2, k)
	vpAssert(f1 >= f2, "FromJaccard is non-increasing in j")
	vpAssert(f1 >= 0 && f1 <= 1 && f2 >= 0 && f2 <= 1, "FromJaccard lies in [0,1]")
	vpReach("end")
}

// VP_C17_Range: for EVERY float64 j in [0,1] (all bit patterns, a symbolic
// IEEE value) and every k in [1,kmax], FromJaccard(j,k) is a number in [0,1],
// 1 at j = 0 and 0 at j = 1. math.Log is an uninterpreted function constrained
// by the contract of a logarithm (sign, special values, monotone), so the
// result does not depend on how math.Log rounds.
func VP_C17_Range() {
	j := vpFloat64("j")
	vpAssume(0 <= j && j <= 1)
	k := vpIntRange("k", 1, vpCase("kmax"))
	f := FromJaccard(j, k)
	vpAssert(f == f, "FromJaccard of a similarity is a number")
	vpAssert(0 <= f && f <= 1, "FromJaccard lies in [0,1]")
	if j == 0 {
		vpAssert(f == 1, "distance 1 for similarity 0")
	}
	if j == 1 {
		vpAssert(f == 0, "distance 0 for similarity 1")
	}
	vpReach("end")
}

// VP_C17_Long: one sequence of tens of thousands of concrete pseudo-random
// bases (longer than any 64 KiB chunk or 16-bit counter): the sketch is the
// bottom-n of the hashes of all canonical k-mers, and is unchanged by
// reverse-complementing the sequence and by adding it in two calls.
func VP_C17_Long() {
	vpPlain = true
	n, k, L := vpCase("n"), vpCase("k"), vpCase("len")
	seq := make([]byte, L)
	x := uint32(12345)
	for i := range seq {
		x = x*1664525 + 1013904223
		seq[i] = "ACGT"[x>>30]
	}
	var hs []uint64
	for i := 0; i+k <= L; i++ {
		w := seq[i : i+k]
		r := vpRCu(w)
		pick := w
		for j := range w {
			if w[j] != r[j] {
				if r[j] < w[j] {
					pick = r
				}
				break
			}
		}
		hs = append(hs, vpH(pick))
	}
	slices.Sort(hs)
	var want []uint64 // distinct, the n smallest, descending
	for i, h := range hs {
		if (i == 0 || h != hs[i-1]) && len(want) < n {
			want = append(want, h)
		}
	}
	slices.Reverse(want)
	vpAssert(vpSameU64(Sequences(n, k, seq).View(), want), "the n smallest distinct hashes of all canonical k-mers of a long sequence, descending")
	vpAssert(vpSameU64(Sequences(n, k, vpRCu(seq)).View(), want), "unchanged by reverse-complementing a long sequence")
	mh := minhash.New[uint64](n)
	Add(mh, k, seq)
	Add(mh, k, seq[L/3:])
	vpAssert(vpSameU64(mh.View(), want), "unchanged when the sequence and a part of it are added one after the other")
	vpObserveInt("kmers", len(hs))
	vpReach("end")
}
