package bed

import "io"

type vpIt struct {
	key []byte
	err bool
	rec any
	bad bool
}

func vpKey(b *BED) []byte {
	txt, _ := b.MarshalText()
	return txt
}

func vpIter(api int, r io.Reader, fn func(vpIt) bool) {
	for b, err := range Reader(r) {
		it := vpIt{err: err != nil}
		it.bad = (b == nil) == (err == nil)
		if b != nil {
			it.rec = b
		}
		if err == nil {
			it.key = vpKey(b)
		}
		if !fn(it) {
			break
		}
	}
}

// vpFileRunner takes ONE File(path) iterator value and returns a function that
// ranges over that same value each time it is called.
func vpFileRunner(api int, path string) func(fn func(vpIt) bool) {
	seq := File(path)
	return func(fn func(vpIt) bool) {
		for b, err := range seq {
			it := vpIt{err: err != nil}
			if err == nil {
				it.key = vpKey(b)
			}
			if !fn(it) {
				break
			}
		}
	}
}

func vpIterFile(api int, path string, fn func(vpIt) bool) { vpFileRunner(api, path)(fn) }

func vpRawOK(c byte) bool { return true }

func vpErrIsLast() bool { return true }

func vpSampleRecs(tag string, shape int) []*BED {
	switch shape {
	case 4:
		return []*BED{vpRecord(tag+"a.", 4, 4200, 0, 0), vpRecord(tag+"b.", 4, 1, 0, 0)}
	case 0:
		return []*BED{vpRecord(tag+"a.", 3, 1, 0, 0)}
	case 1:
		return []*BED{vpRecord(tag+"a.", 4, 1, 0, 0), vpRecord(tag+"b.", 4, 0, 1, 0)}
	case 2:
		return []*BED{vpRecord(tag+"a.", 12, 1, 0, 2)}
	}
	return []*BED{vpRecord(tag+"a.", 6, 1, 0, 0), vpRecord(tag+"b.", 6, 1, 0, 0), vpRecord(tag+"c.", 6, 0, 0, 0)}
}

func vpSample(tag string, shape int) []byte {
	var w vpBuf
	for _, b := range vpSampleRecs(tag, shape) {
		b.Write(&w)
	}
	return w.b
}

func vpWriteSample(tag string, shape int, w io.Writer) (error, int) {
	total := 0
	for _, b := range vpSampleRecs(tag, shape) {
		txt, _ := b.MarshalText()
		total += len(txt)
		if err := b.Write(w); err != nil {
			return err, total
		}
	}
	return nil, total
}

// vpTemplate: 3+k tab-separated fields of 1 symbolic byte (no TAB/LF inside;
// RGB 5 bytes, block count 2, block lists 3, so that well-formed values fit).
func vpTemplate(k int) []byte {
	n := 3 + k
	var out []byte
	// lines with 9 fields and more keep their leading fields concrete and
	// valid, so that the later fields are reached and the search stays small:
	// symbolic are the last field(s) only (9 fields: the RGB triple; 10: the
	// block count; 11, 12: block count and block lists)
	fixed := []string{"c", "1", "2", "n", "5", "+", "1", "2", "1,2,3", "2"}
	firstSym := 0
	if n >= 9 {
		firstSym = 8
	}
	if n >= 10 {
		firstSym = 9
	}
	if n >= 12 {
		firstSym = 10 // 12 fields: block count 2, both block lists symbolic
	}
	for i := 0; i < n; i++ {
		if i > 0 {
			out = append(out, '\t')
		}
		if i < firstSym {
			out = append(out, fixed[i]...)
			continue
		}
		ln := 1
		if i >= 10 {
			ln = 3
		}
		if i == 8 {
			ln = 5 // "r,g,b" needs five bytes: with fewer no line gets past this field
		}
		if i == 9 {
			ln = 2 // the block count: room for a sign or two digits
		}
		tok := vpBytes("f"+vpNum(i), ln)
		for _, c := range tok {
			vpAssume(c != '\t' && c != '\n')
		}
		out = append(out, tok...)
	}
	return append(out, '\n')
}

func vpFixedPoint(rec any) (bool, bool) {
	b := rec.(*BED)
	for _, s := range []string{b.Chrom, b.Name} {
		for i := 0; i < len(s); i++ {
			if s[i] == '\t' || s[i] == '\n' || s[i] == '\r' {
				return false, false
			}
		}
	}
	if len(b.Chrom) > 0 && b.Chrom[0] == '#' || b.Chrom == "" && b.N == 3 {
		// a line starting with '#' is a comment
		if len(b.Chrom) > 0 {
			return false, false
		}
	}
	var w vpBuf
	if b.Write(&w) != nil {
		return true, false
	}
	got := vpCollect(vpOneShot(w.b), 3)
	return true, len(got) == 1 && !got[0].err && vpSameBED(got[0].b, vpFirstN(b))
}

func vpOneRecord(i, extra int) []byte {
	var out []byte
	for k := 0; k <= extra; k++ {
		out = append(out, 'c')
	}
	out = append(out, "\t1\t2\t"...)
	for j := 0; j < 8; j++ {
		out = append(out, "ACGT"[(i+j*j)%4])
	}
	return append(out, '\n')
}

func vpKeyOf(rec any) []byte { return vpKey(rec.(*BED)) }

func vpBlankLinesOK() bool { return true }
