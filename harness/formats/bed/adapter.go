package bed

import "io"

type vpIt struct {
	key []byte
	err bool
}

func vpKey(b *BED) []byte {
	txt, _ := b.MarshalText()
	return txt
}

func vpIter(api int, r io.Reader, fn func(vpIt) bool) {
	for b, err := range Reader(r) {
		it := vpIt{err: err != nil}
		if err == nil {
			it.key = vpKey(b)
		}
		if !fn(it) {
			break
		}
	}
}

func vpIterFile(api int, path string, fn func(vpIt) bool) {
	for b, err := range File(path) {
		it := vpIt{err: err != nil}
		if err == nil {
			it.key = vpKey(b)
		}
		if !fn(it) {
			break
		}
	}
}

func vpErrIsLast() bool { return true }

func vpSampleRecs(tag string, shape int) []*BED {
	switch shape {
	case 0:
		return []*BED{vpRecord(tag+"a.", 3, 1, 0, 0)}
	case 1:
		return []*BED{vpRecord(tag+"a.", 4, 1, 0, 0), vpRecord(tag+"b.", 4, 0, 1, 0)}
	case 2:
		return []*BED{vpRecord(tag+"a.", 12, 1, 0, 2)}
	}
	return []*BED{vpRecord(tag+"a.", 6, 1, 0, 0), vpRecord(tag+"b.", 6, 1, 0, 0), vpRecord(tag+"c.", 6, 0, 0, 0)}
}

func vpSample(tag string, shape int) []byte {
	var w vpBuf
	for _, b := range vpSampleRecs(tag, shape) {
		b.Write(&w)
	}
	return w.b
}

func vpWriteSample(tag string, shape int, w io.Writer) (error, int) {
	total := 0
	for _, b := range vpSampleRecs(tag, shape) {
		txt, _ := b.MarshalText()
		total += len(txt)
		if err := b.Write(w); err != nil {
			return err, total
		}
	}
	return nil, total
}
