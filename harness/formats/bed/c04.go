package bed

import "bytes"

// vpText: symbolic text field free of TAB/CR/LF; while the known class D7
// (a double quote anywhere in a field) is excluded it has no '"'.
func vpText(tag string, n int) string {
	s := vpStr(tag, n)
	for i := 0; i < len(s); i++ {
		vpAssume(s[i] != '\t' && s[i] != '\n' && s[i] != '\r')
		if vpCase("exclQuote") == 1 {
			vpAssume(s[i] != '"')
		}
	}
	return s
}

func vpSymInt(tag string, sym bool, fixed int) int {
	if sym {
		return vpIntRange(tag, -9, 99)
	}
	return fixed
}

// vpRecord builds a symbolic BED record with its first N fields populated and
// the rest zero. ints = bit mask of symbolic integer fields, blocks = block
// count (for N >= 10; N in {10, 11} uses 0 because the written prefix must be
// self-consistent).
func vpRecord(tag string, N, txt, ints, blocks int) *BED {
	b := vpRecordM(tag, N, txt, ints, blocks)
	if vpCaseOr("junk", 0) == 1 {
		// every field populated, N says how many count: the writer must go
		// by N, not by which fields happen to be non-zero
		b = vpRecordM(tag, 12, txt, ints, max(blocks, 1))
		b.N = N
	}
	return b
}

func vpRecordM(tag string, N, txt, ints, blocks int) *BED {
	b := &BED{N: N}
	b.Chrom = vpText(tag+"chrom", min(txt, 2))
	if len(b.Chrom) > 0 {
		vpAssume(b.Chrom[0] != '#')
	}
	b.ChromStart = vpSymInt(tag+"start", ints&1 != 0, 10)
	b.ChromEnd = vpSymInt(tag+"end", ints&2 != 0, 20)
	if N > 3 {
		if txt >= 1000 {
			// a long field: the line exceeds bufio's 4096-byte buffer
			b.Name = string(vpSparse(tag+"name", txt, func(c byte) bool { return c != '\t' && c != '\n' && c != '\r' }))
		} else {
			b.Name = vpText(tag+"name", txt)
		}
	}
	if N > 4 {
		b.Score = vpSymInt(tag+"score", ints&4 != 0, 150)
	}
	if N > 5 {
		b.Strand = []string{"+", "-", ".", ""}[vpChoice(tag+"strand", 4)]
	}
	if N > 6 {
		b.ThickStart = vpSymInt(tag+"tstart", ints&8 != 0, 11)
	}
	if N > 7 {
		b.ThickEnd = vpSymInt(tag+"tend", ints&16 != 0, -3)
	}
	if N > 8 {
		if ints&128 != 0 {
			b.ItemRGB = [3]byte{vpByte(tag + "r"), vpByte(tag + "g"), vpByte(tag + "b")}
		} else {
			b.ItemRGB = [3]byte{0, 255, 7}
		}
	}
	if N > 9 {
		// the block lists are consistent with the block count in the record
		// (for N = 10 and 11 they are only partly written)
		b.BlockCount = blocks
		for i := 0; i < blocks; i++ {
			b.BlockSizes = append(b.BlockSizes, vpSymInt(tag+"bs"+vpDigit(i), ints&32 != 0, 40+i))
			b.BlockStarts = append(b.BlockStarts, vpSymInt(tag+"bt"+vpDigit(i), ints&64 != 0, 100*i))
		}
	}
	return b
}

func vpSameInts(a, b []int) bool {
	if len(a) != len(b) {
		return false
	}
	ok := true
	for i := range a {
		ok = ok && a[i] == b[i]
	}
	return ok
}

// vpFirstN is b with every field beyond its first N zeroed: what reading the
// written line must give back.
func vpFirstN(b *BED) *BED {
	c := *b
	if c.N < 12 {
		c.BlockStarts = nil
	}
	if c.N < 11 {
		c.BlockSizes = nil
	}
	if c.N < 10 {
		c.BlockCount = 0
	}
	if c.N < 9 {
		c.ItemRGB = [3]byte{}
	}
	if c.N < 8 {
		c.ThickEnd = 0
	}
	if c.N < 7 {
		c.ThickStart = 0
	}
	if c.N < 6 {
		c.Strand = ""
	}
	if c.N < 5 {
		c.Score = 0
	}
	if c.N < 4 {
		c.Name = ""
	}
	return &c
}

func vpSameBED(a, b *BED) bool {
	if a == nil || b == nil {
		return a == b
	}
	return a.N == b.N && a.Chrom == b.Chrom && a.ChromStart == b.ChromStart && a.ChromEnd == b.ChromEnd &&
		a.Name == b.Name && a.Score == b.Score && a.Strand == b.Strand && a.ThickStart == b.ThickStart &&
		a.ThickEnd == b.ThickEnd && a.ItemRGB == b.ItemRGB && a.BlockCount == b.BlockCount &&
		vpSameInts(a.BlockSizes, b.BlockSizes) && vpSameInts(a.BlockStarts, b.BlockStarts)
}

type vpItem struct {
	b   *BED
	err bool
}

func vpCollect(r *vpReader, cap int) []vpItem {
	var out []vpItem
	for b, err := range Reader(r) {
		out = append(out, vpItem{b, err != nil})
		if len(out) >= cap {
			break
		}
	}
	return out
}

// VP_C04_RoundTrip: records sharing one N survive write -> read; the line has
// exactly N tab-separated fields.
func VP_C04_RoundTrip() {
	N, nrec := vpCase("N"), vpCase("records")
	var w vpBuf
	var recs []*BED
	for r := 0; r < nrec; r++ {
		b := vpRecord("r"+vpDigit(r)+".", N, vpCase("txt"), vpCase("ints"), vpCase("blocks"))
		before := len(w.b)
		vpAssert(b.Write(&w) == nil, "Write succeeds for N in 3..12")
		txt, err := b.MarshalText()
		line := w.b[before:]
		vpAssert(err == nil && bytes.Equal(txt, line), "MarshalText and Write produce identical bytes")
		(&BED{N: 4, Chrom: "zz", ChromStart: 1, ChromEnd: 2, Name: "yy"}).MarshalText()
		vpAssert(bytes.Equal(txt, line), "bytes returned by MarshalText are not disturbed by a later MarshalText call")
		tabs, nls := 0, 0
		for _, c := range line {
			if c == '\t' {
				tabs++
			}
			if c == '\n' {
				nls++
			}
		}
		vpAssert(tabs == N-1 && nls == 1 && line[len(line)-1] == '\n', "exactly N tab-separated fields on one line")
		recs = append(recs, b)
	}
	got := vpCollect(vpOneShot(w.b), nrec+3)
	vpAssert(len(got) == nrec, "as many records as were written")
	ok := len(got) == nrec
	for i := 0; ok && i < nrec; i++ {
		ok = !got[i].err && vpSameBED(got[i].b, vpFirstN(recs[i]))
	}
	vpAssert(ok, "same N, same first N fields, remaining fields zero")
	vpObserveBytes("text", w.b)
	vpReach("end")
}

// VP_C04_Refuse: Write refuses N outside 3..12 and emits nothing.
func VP_C04_Refuse() {
	b := vpRecord("r.", 12, 1, 0, 1)
	b.N = vpInt("N")
	vpAssume(b.N < 3 || b.N > 12)
	var w vpBuf
	err := b.Write(&w)
	vpAssert(err != nil, "Write returns an error when N is outside 3..12")
	vpAssert(len(w.b) == 0, "nothing is emitted")
	txt, err2 := b.MarshalText()
	vpAssert(err2 != nil && len(txt) == 0, "MarshalText refuses as well")
	vpReach("end")
}

// VP_C04_IntField: one integer field over a range through the decimal printer
// and parser, or one of a list of extreme values (concrete, so that any
// detour through floating point is run on the host).
func VP_C04_IntField() {
	b := &BED{N: 12, Chrom: "c", ChromStart: 1, ChromEnd: 2, Name: "n", Score: 3, Strand: "+", ThickStart: 4, ThickEnd: 5, BlockCount: 1, BlockSizes: []int{6}, BlockStarts: []int{7}}
	var v int
	if k := vpCase("extreme"); k >= 0 {
		v = []int{0, -1, 9223372036854775807, -9223372036854775808, 2147483648, -2147483649, 9007199254740993, -9007199254740993, 1000000000000000000}[k]
	} else {
		v = vpIntRange("v", vpCase("lo"), vpCase("hi"))
	}
	switch vpCase("field") {
	case 0:
		b.ChromStart = v
	case 1:
		b.ChromEnd = v
	case 2:
		b.Score = v
	case 3:
		b.ThickStart = v
	case 4:
		b.ThickEnd = v
	case 5:
		b.BlockSizes = []int{v}
	case 6:
		b.BlockStarts = []int{v}
	}
	var w vpBuf
	vpAssert(b.Write(&w) == nil, "Write succeeds")
	got := vpCollect(vpOneShot(w.b), 3)
	vpAssert(len(got) == 1 && !got[0].err && vpSameBED(got[0].b, b), "any int value survives write -> read")
	vpReach("end")
}
