package sam

import (
	"bytes"
	"fmt"
	"math"
	"strings"
)

// VP_Conf_Models: the plain-Go models that the executor runs in place of
// cut-off library routines agree with the real routines on a list of concrete
// inputs. Symbolically the fmt model is compared with the host's real fmt
// (all-concrete arguments are formatted by the host); natively - every run
// replays one path of this harness - the bytealg and regexp models are
// compared with the real internal/bytealg and strings code as well.
func VP_Conf_Models() {
	ints := []int{0, 7, -1, 10, 99, 100, -9, -10, 12345, math.MaxInt64, math.MinInt64, math.MaxInt32 + 1}
	for _, v := range ints {
		vpAssert(string(vpFormat("%d\t%v|", []any{v, v})) == fmt.Sprintf("%d\t%v|", v, v), "fmt model: %d/%v of int")
		vpAssert(string(vpFormat("%d", []any{Flag(v)})) == fmt.Sprintf("%d", Flag(v)), "fmt model: %d of Flag")
	}
	for _, v := range []uint8{0, 9, 10, 99, 100, 255} {
		vpAssert(string(vpFormat("%v,%v", []any{v, v})) == fmt.Sprintf("%v,%v", v, v), "fmt model: %v of uint8")
	}
	for _, s := range []string{"", "a", "a\tb", "\"q\"", "\x00\xff%"} {
		vpAssert(string(vpFormat(">%s\n%v", []any{s, s})) == fmt.Sprintf(">%s\n%v", s, s), "fmt model: %s and %v of string")
		vpAssert(string(vpFormat("%s|%s", []any{s, []byte(s)})) == fmt.Sprintf("%s|%s", s, []byte(s)), "fmt model: %s of string and []byte")
	}
	// data used as a format string (no operands): fmt's missing-operand texts
	for _, f := range []string{"", "a%", "50%_x", "%20A", "a%%b", "%-5d|", "% x%", "%#08q.", "%!", "100%\t%s\n", "%07", "%+"} {
		vpAssert(string(vpFormat(f, nil)) == fmt.Sprintf(f), "fmt model: directives without operands")
	}
	hay := []string{"", "a", "abcabc", "\t\tx\t", "aXbXc", "::", "a:b:c"}
	for _, h := range hay {
		for _, c := range []byte{'a', 'X', '\t', ':', 'z'} {
			vpAssert(vpIndexByteString(h, c) == strings.IndexByte(h, c), "bytealg model: IndexByteString")
			vpAssert(vpIndexByte([]byte(h), c) == bytes.IndexByte([]byte(h), c), "bytealg model: IndexByte")
			vpAssert(vpCountString(h, c) == strings.Count(h, string([]byte{c})), "bytealg model: CountString")
			vpAssert(vpLastIndexByteString(h, c) == strings.LastIndexByte(h, c), "bytealg model: LastIndexByteString")
		}
		for _, n := range []string{"", "a", "bc", "X", "::", "abcabcd"} {
			if n != "" {
				vpAssert(vpIndexString(h, n) == strings.Index(h, n), "bytealg model: IndexString")
			}
			vpAssert(vpCompare([]byte(h), []byte(n)) == bytes.Compare([]byte(h), []byte(n)), "bytealg model: Compare")
			vpAssert(vpEqual([]byte(h), []byte(n)) == bytes.Equal([]byte(h), []byte(n)), "bytealg model: Equal")
		}
		vpObserveInt("fields", len(vpFindAllNonSpace(h)))
		vpAssert(len(vpFindAllNonSpace(h)) == len(strings.Fields(strings.ReplaceAll(h, "\v", "x"))), "regexp model: \\S+ runs")
	}
	vpReach("end")
}
