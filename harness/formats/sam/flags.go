package sam

// VP_C03_Flags: every accessor reads, and every setter writes, exactly the
// bit the SAM specification assigns to it. The flag word is symbolic over all
// 64 bits (a superset of the 4096 defined values).
func VP_C03_Flags() {
	// SAM specification v1, section 1.4, FLAG bits (literal, independent of the
	// package's iota constants).
	spec := [12]Flag{0x1, 0x2, 0x4, 0x8, 0x10, 0x20, 0x40, 0x80, 0x100, 0x200, 0x400, 0x800}
	getters := [12]func(Flag) bool{
		Flag.Multiple, Flag.Each, Flag.Unmapped, Flag.Unmapped2,
		Flag.ReverseComplement, Flag.ReverseComplement2, Flag.First, Flag.Last,
		Flag.Secondary, Flag.NotPassing, Flag.Duplicate, Flag.Supplementary,
	}
	setters := [12]func(*Flag, bool){
		(*Flag).SetMultiple, (*Flag).SetEach, (*Flag).SetUnmapped, (*Flag).SetUnmapped2,
		(*Flag).SetReverseComplement, (*Flag).SetReverseComplement2, (*Flag).SetFirst, (*Flag).SetLast,
		(*Flag).SetSecondary, (*Flag).SetNotPassing, (*Flag).SetDuplicate, (*Flag).SetSupplementary,
	}
	f := Flag(vpInt("flag"))
	i := vpCase("bit")
	v := vpBool("value")
	vpAssert(getters[i](f) == (f&spec[i] != 0), "getter reads exactly its SAM bit")
	g := f
	setters[i](&g, v)
	want := f &^ spec[i]
	if v {
		want |= spec[i]
	}
	vpAssert(g == want, "setter writes exactly its SAM bit and no other")
	for j := 0; j < 12; j++ {
		vpAssert(getters[j](g) == (want&spec[j] != 0), "every getter agrees after the set")
	}
	vpObserveInt("after", int(g))
	vpReach("end")
}
