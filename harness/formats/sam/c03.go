package sam

import (
	"bytes"
	"math"
	"strconv"
)

func init() {
	vpFmtExtra = func(out []byte, verb byte, a any) ([]byte, bool) {
		if f, ok := a.(Flag); ok && (verb == 'd' || verb == 'v') {
			return strconv.AppendInt(out, int64(f), 10), true
		}
		return out, false
	}
}

// vpText is a symbolic text field free of TAB/CR/LF. While the known class
// D7 (a field beginning with a double quote) is excluded its first byte is
// not '"'.
func vpText(tag string, n int) string {
	s := vpStr(tag, n)
	for i := 0; i < len(s); i++ {
		vpAssume(s[i] != '\t' && s[i] != '\n' && s[i] != '\r')
	}
	if n > 0 && vpCase("exclQuote") == 1 {
		vpAssume(s[0] != '"')
	}
	return s
}

func vpSymInt(tag string, sym bool, fixed int) int {
	if sym {
		return vpIntRange(tag, -9, 99)
	}
	return fixed
}

var vpFloats = []float64{1.5, math.Copysign(0, -1), 1e-7, 1e21, math.MaxFloat64, math.SmallestNonzeroFloat64, math.Inf(1), math.NaN()}

func vpAlnum(tag string) byte {
	c := vpByte(tag)
	vpAssume((c >= '0' && c <= '9') || (c >= 'A' && c <= 'Z') || (c >= 'a' && c <= 'z'))
	return c
}

// vpRecord builds a symbolic SAM record. txt = length of every text field,
// ints = bit mask of symbolic integer fields, tags = number of tags, types =
// tag value types in base 5 (A, i, f, Z, H).
func vpRecord(tag string, txt, ints, ntags, types int) *SAM {
	s := &SAM{}
	long := txt
	if txt >= 1000 {
		txt = 1
	}
	s.Qname = vpText(tag+"qname", txt)
	if len(s.Qname) > 0 {
		vpAssume(s.Qname[0] != '@')
	}
	s.Flag = Flag(vpSymInt(tag+"flag", ints&1 != 0, 99))
	s.Rname = vpText(tag+"rname", txt)
	s.Pos = vpSymInt(tag+"pos", ints&2 != 0, 7)
	s.Mapq = vpSymInt(tag+"mapq", ints&4 != 0, 0)
	s.Cigar = vpText(tag+"cigar", txt)
	s.Rnext = vpText(tag+"rnext", txt)
	s.Pnext = vpSymInt(tag+"pnext", ints&8 != 0, -1)
	s.Tlen = vpSymInt(tag+"tlen", ints&16 != 0, 10)
	if long >= 1000 {
		txt = long
		// long SEQ/QUAL: the line exceeds bufio's 4096-byte buffer
		okb := func(c byte) bool { return c != '\t' && c != '\n' && c != '\r' }
		s.Seq = string(vpSparse(tag+"seq", txt, okb))
		s.Qual = string(vpSparse(tag+"qual", txt, okb))
		txt = 1
	} else {
		s.Seq = vpText(tag+"seq", txt)
		s.Qual = vpText(tag+"qual", txt)
	}
	s.Tags = map[string]any{}
	for t := 0; t < ntags; t++ {
		tn := tag + "tag" + vpDigit(t)
		name := string([]byte{vpAlnum(tn + ".n0"), vpAlnum(tn + ".n1")})
		for prev := range s.Tags {
			vpAssume(prev != name)
		}
		switch types % 5 {
		case 0:
			c := vpByte(tn + ".A")
			vpAssume(c >= 0x21 && c <= 0x7e)
			s.Tags[name] = c
		case 1:
			s.Tags[name] = vpIntRange(tn+".i", -9, 99)
		case 2:
			s.Tags[name] = vpFloats[vpChoice(tn+".f", len(vpFloats))]
		case 3:
			s.Tags[name] = vpText(tn+".Z", vpCase("tagLen"))
		case 4:
			s.Tags[name] = vpBytes(tn+".H", vpCase("tagLen"))
		}
		types /= 5
	}
	return s
}

func vpSameAny(a, b any) bool {
	switch x := a.(type) {
	case byte:
		y, ok := b.(byte)
		return ok && x == y
	case int:
		y, ok := b.(int)
		return ok && x == y
	case float64:
		y, ok := b.(float64)
		if !ok {
			return false
		}
		if x != x {
			return y != y
		}
		return x == y && math.Signbit(x) == math.Signbit(y)
	case string:
		y, ok := b.(string)
		return ok && x == y
	case []byte:
		y, ok := b.([]byte)
		return ok && bytes.Equal(x, y)
	}
	return false
}

func vpSameSAM(a, b *SAM) bool {
	if a == nil || b == nil {
		return a == b
	}
	ok := a.Qname == b.Qname && a.Flag == b.Flag && a.Rname == b.Rname && a.Pos == b.Pos && a.Mapq == b.Mapq &&
		a.Cigar == b.Cigar && a.Rnext == b.Rnext && a.Pnext == b.Pnext && a.Tlen == b.Tlen && a.Seq == b.Seq && a.Qual == b.Qual
	if len(a.Tags) != len(b.Tags) {
		return false
	}
	for k, v := range a.Tags {
		w, has := b.Tags[k]
		ok = ok && has && vpSameAny(v, w)
	}
	return ok
}

type vpItem struct {
	s   *SAM
	h   string
	isH bool
	err bool
}

func vpCollect(r *vpReader, cap int) []vpItem {
	var out []vpItem
	for s, err := range Reader(r) {
		out = append(out, vpItem{s: s, err: err != nil})
		if len(out) >= cap {
			break
		}
	}
	return out
}

func vpCollectH(r *vpReader, cap int) []vpItem {
	var out []vpItem
	for sh, err := range ReaderHeader(r) {
		it := vpItem{s: sh.S, err: err != nil}
		if sh.H != nil {
			it.h, it.isH = *sh.H, true
		}
		out = append(out, it)
		if len(out) >= cap {
			break
		}
	}
	return out
}

// VP_C03_Record: a record written with Write/MarshalText occupies one line
// with sorted tags and reads back identical through Reader and ReaderHeader.
func VP_C03_Record() {
	vpMapOrder(vpCase("order"))
	s := vpRecord("r.", vpCase("txt"), vpCase("ints"), vpCase("tags"), vpCase("types"))
	var w vpBuf
	vpAssert(s.Write(&w) == nil, "Write succeeds")
	txt, err := s.MarshalText()
	vpAssert(err == nil && bytes.Equal(txt, w.b), "MarshalText and Write produce identical bytes")
	(&SAM{Qname: "zz", Rname: "yy", Cigar: "*", Rnext: "*", Seq: "TTTT", Qual: "!!!!"}).MarshalText()
	vpAssert(bytes.Equal(txt, w.b), "bytes returned by MarshalText are not disturbed by a later MarshalText call")
	nl := 0
	for _, c := range w.b {
		if c == '\n' {
			nl++
		}
	}
	vpAssert(nl == 1 && w.b[len(w.b)-1] == '\n', "exactly one line")
	// tags sorted: fields 12.. ascending
	fields := bytes.Split(w.b[:len(w.b)-1], []byte{'\t'})
	vpAssert(len(fields) == 11+len(s.Tags), "11 mandatory fields plus one per tag")
	sorted := true
	for i := 12; i < len(fields); i++ {
		sorted = sorted && bytes.Compare(fields[i-1], fields[i]) <= 0
	}
	vpAssert(sorted, "tags are written sorted")
	got := vpCollect(vpOneShot(w.b), 3)
	vpAssert(len(got) == 1 && !got[0].err && vpSameSAM(got[0].s, s), "Reader yields exactly the written record")
	gh := vpCollectH(vpOneShot(w.b), 3)
	vpAssert(len(gh) == 1 && !gh[0].err && !gh[0].isH && vpSameSAM(gh[0].s, s), "ReaderHeader yields exactly the written record")
	vpObserveBytes("line", w.b)
	vpReach("end")
}

// VP_C03_IntField: one integer field over the full int range survives
// write -> read (decimal printing and parsing).
func VP_C03_IntField() {
	s := &SAM{Qname: "q", Rname: "r", Cigar: "*", Rnext: "=", Seq: "A", Qual: "I"}
	// either a symbolic value in [lo, hi] or one of the listed extreme values
	var v int
	if k := vpCase("extreme"); k >= 0 {
		v = []int{0, -1, math.MaxInt64, math.MinInt64, math.MaxInt32 + 1, math.MinInt32 - 1, 1000000000000000000, -999999999999999999}[k]
	} else {
		v = vpIntRange("v", vpCase("lo"), vpCase("hi"))
	}
	switch vpCase("field") {
	case 0:
		s.Flag = Flag(v)
	case 1:
		s.Pos = v
	case 2:
		s.Tlen = v
	case 3:
		s.Tags = map[string]any{"XI": v}
	}
	var w vpBuf
	s.Write(&w)
	got := vpCollect(vpOneShot(w.b), 3)
	vpAssert(len(got) == 1 && !got[0].err && vpSameSAM(got[0].s, s), "any int value survives write -> read")
	vpReach("end")
}

// VP_C03_File: header lines followed by records: ReaderHeader returns them
// line for line, headers verbatim; Reader returns exactly the records.
func VP_C03_File() {
	nh, nr := vpCase("headers"), vpCase("records")
	var data []byte
	var want []vpItem
	for h := 0; h < nh; h++ {
		// a header line: '@' + symbolic bytes (TABs allowed, no CR/LF)
		n := vpCase("hdrLen")
		body := vpStr("h"+vpDigit(h), n)
		for i := 0; i < n; i++ {
			vpAssume(body[i] != '\n' && body[i] != '\r')
			if vpCase("exclQuote") == 1 && (i == 0 || body[i-1] == '\t') {
				// (a '"' directly after '@' is inside the first field, so only
				// later fields can begin with one)
				if i > 0 {
					vpAssume(body[i] != '"')
				}
			}
		}
		line := "@" + body
		data = append(data, line...)
		data = append(data, '\n')
		want = append(want, vpItem{h: line, isH: true})
	}
	var recs []*SAM
	for r := 0; r < nr; r++ {
		s := vpRecord("r"+vpDigit(r)+".", vpCase("txt"), 0, vpCase("tags"), vpCase("types"))
		var w vpBuf
		s.Write(&w)
		data = append(data, w.b...)
		want = append(want, vpItem{s: s})
		recs = append(recs, s)
	}
	gh := vpCollectH(vpOneShot(data), nh+nr+3)
	vpAssert(len(gh) == len(want), "ReaderHeader returns one item per line")
	ok := len(gh) == len(want)
	for i := 0; ok && i < len(want); i++ {
		if want[i].isH {
			ok = !gh[i].err && gh[i].isH && gh[i].s == nil && gh[i].h == want[i].h
		} else {
			ok = !gh[i].err && !gh[i].isH && vpSameSAM(gh[i].s, want[i].s)
		}
	}
	vpAssert(ok, "headers verbatim and records identical, in order")
	got := vpCollect(vpOneShot(data), nh+nr+3)
	vpAssert(len(got) == nr, "Reader returns exactly the records")
	ok = len(got) == nr
	for i := 0; ok && i < nr; i++ {
		ok = !got[i].err && vpSameSAM(got[i].s, recs[i])
	}
	vpAssert(ok, "Reader returns the records in order")
	vpReach("end")
}

// VP_C11_SAMCorrupt: a file of three lines whose middle line is corrupted in
// one of several ways yields exactly one error in that line's position and
// leaves the records before and after it intact.
func VP_C11_SAMCorrupt() {
	kind := vpCase("kind")
	a := vpRecord("a.", 1, 0, 1, 1)
	c := vpRecord("c.", 1, 0, 0, 0)
	var wa, wc vpBuf
	a.Write(&wa)
	c.Write(&wc)
	good := vpRecord("b.", 1, 0, 0, 0)
	var wb vpBuf
	good.Write(&wb)
	fields := bytes.Split(wb.b[:len(wb.b)-1], []byte{'\t'})
	sym := func(name string) []byte {
		b := vpBytes(name, 1)
		vpAssume(b[0] != '\t' && b[0] != '\n' && b[0] != '\r')
		return b
	}
	switch kind {
	case 0: // too few fields
		fields = fields[:10]
	case 1: // non-digit byte in an integer field
		d := sym("bad")
		vpAssume(!(d[0] >= '0' && d[0] <= '9'))
		fields[3] = append([]byte("1"), d...)
	case 2: // tag without a second colon
		fields = append(fields, append([]byte("XY:"), sym("bad")...))
	case 3: // ill-typed i tag
		d := sym("bad")
		vpAssume(!(d[0] >= '0' && d[0] <= '9'))
		fields = append(fields, append([]byte("XY:i:"), d...))
	case 4: // A tag with two characters
		fields = append(fields, append(append([]byte("XY:A:"), sym("b1")...), sym("b2")...))
	case 5: // H tag with a non-hex digit
		d := sym("bad")
		vpAssume(!(d[0] >= '0' && d[0] <= '9') && !(d[0] >= 'a' && d[0] <= 'f') && !(d[0] >= 'A' && d[0] <= 'F'))
		fields = append(fields, append([]byte("XY:H:a"), d...))
	case 6: // unknown tag type
		d := sym("bad")
		vpAssume(d[0] != 'A' && d[0] != 'i' && d[0] != 'f' && d[0] != 'Z' && d[0] != 'H' && d[0] != 'B' && d[0] != ':')
		fields = append(fields, append(append([]byte("XY:"), d...), []byte(":1")...))
	case 7: // empty integer field
		fields[7] = nil
	}
	bad := append(bytes.Join(fields, []byte{'\t'}), '\n')
	var data []byte
	data = append(data, wa.b...)
	data = append(data, bad...)
	data = append(data, wc.b...)
	got := vpCollectH(vpOneShot(data), 6)
	vpAssert(len(got) == 3, "one item per line")
	if len(got) == 3 {
		vpAssert(!got[0].err && vpSameSAM(got[0].s, a), "the record before the malformed line is intact")
		vpAssert(got[1].err, "the malformed line yields exactly one error in its position")
		vpAssert(!got[2].err && vpSameSAM(got[2].s, c), "the record after the malformed line is intact")
	}
	vpReach("end")
}
