package sam

import "io"

type vpIt struct {
	key []byte
	err bool
	rec any
	bad bool
}

func vpKey(s *SAM) []byte {
	// the written form is an unambiguous key for records in the domain
	txt, _ := s.MarshalText()
	return append([]byte{'S'}, txt...)
}

func vpItemOf(s *SAM, h *string, err error) vpIt {
	it := vpIt{err: err != nil}
	it.bad = err == nil && (s == nil) == (h == nil)
	if s != nil && err == nil {
		it.rec = s
	}
	if err == nil {
		if h != nil {
			it.key = append([]byte{'H'}, *h...)
		} else if s != nil {
			it.key = vpKey(s)
		}
	}
	return it
}

// api 0 = Reader / File, api 1 = ReaderHeader / FileHeader
func vpIter(api int, r io.Reader, fn func(vpIt) bool) {
	if api == 1 {
		for sh, err := range ReaderHeader(r) {
			if !fn(vpItemOf(sh.S, sh.H, err)) {
				break
			}
		}
		return
	}
	for s, err := range Reader(r) {
		if !fn(vpItemOf(s, nil, err)) {
			break
		}
	}
}

// vpFileRunner takes ONE File/FileHeader iterator value and returns a function
// that ranges over that same value each time it is called.
func vpFileRunner(api int, path string) func(fn func(vpIt) bool) {
	if api == 1 {
		seq := FileHeader(path)
		return func(fn func(vpIt) bool) {
			for sh, err := range seq {
				if !fn(vpItemOf(sh.S, sh.H, err)) {
					break
				}
			}
		}
	}
	seq := File(path)
	return func(fn func(vpIt) bool) {
		for s, err := range seq {
			if !fn(vpItemOf(s, nil, err)) {
				break
			}
		}
	}
}

func vpIterFile(api int, path string, fn func(vpIt) bool) { vpFileRunner(api, path)(fn) }

func vpRawOK(c byte) bool { return true }

func vpErrIsLast() bool { return false }

func vpSampleRecs(tag string, shape int) (hdr []string, recs []*SAM) {
	switch shape {
	case 4:
		return []string{"@HD\tVN:1"}, []*SAM{vpRecord(tag+"a.", 4200, 0, 0, 0), vpRecord(tag+"b.", 1, 0, 0, 0)}
	case 0:
		return nil, []*SAM{vpRecord(tag+"a.", 1, 0, 0, 0)}
	case 1:
		return []string{"@HD\tVN:1"}, []*SAM{vpRecord(tag+"a.", 1, 0, 1, 3), vpRecord(tag+"b.", 0, 0, 0, 0)}
	case 2:
		return []string{"@a", "@b\tc"}, []*SAM{vpRecord(tag+"a.", 1, 1, 0, 0)}
	}
	return nil, []*SAM{vpRecord(tag+"a.", 1, 0, 0, 0), vpRecord(tag+"b.", 1, 0, 0, 0), vpRecord(tag+"c.", 0, 0, 1, 1)}
}

func vpSample(tag string, shape int) []byte {
	hdr, recs := vpSampleRecs(tag, shape)
	var w vpBuf
	for _, h := range hdr {
		w.b = append(append(w.b, h...), '\n')
	}
	for _, s := range recs {
		s.Write(&w)
	}
	return w.b
}

func vpWriteSample(tag string, shape int, w io.Writer) (error, int) {
	_, recs := vpSampleRecs(tag, shape)
	total := 0
	for _, s := range recs {
		txt, _ := s.MarshalText()
		total += len(txt)
		if err := s.Write(w); err != nil {
			return err, total
		}
	}
	return nil, total
}

var vpPFCount int

// vpParseFloatStub replaces strconv.ParseFloat on symbolic text (totality
// harnesses only): an arbitrary result.
func vpParseFloatStub(s string, bits int) (float64, error) {
	vpPFCount++
	k := vpChoice("parsefloat"+vpNum(vpPFCount), 3)
	if k == 0 {
		return 0, vpErrRead
	}
	return []float64{0, 1.5}[k-1], nil
}

// vpTemplate: a SAM line whose structure is concrete and whose tokens are
// symbolic over all byte values except TAB/LF, one region at a time:
//   k=0: the six text fields (1 byte each)      k=1: integer fields 1 and 7 (2 bytes each)
//   k=2: 10 fields only (too few)               k=3: one tag of 4 symbolic bytes
//   k=4: one tag of 5 symbolic bytes            k=5: a valid tag followed by a 4-byte symbolic tag
//   k=6: integer fields 3, 4 and 8 (1..2 bytes) k=7: one tag "X?:?:??" with 4 symbolic bytes
//   k=8: a symbolic text field and four concrete float tags outside float32
func vpTemplate(k int) []byte {
	tok := func(name string, n int) string {
		b := vpBytes(name, n)
		for _, c := range b {
			vpAssume(c != '\t' && c != '\n')
		}
		return string(b)
	}
	f := []string{"q", "0", "r", "1", "2", "*", "=", "3", "4", "A", "I"}
	switch k {
	case 0:
		for _, i := range []int{0, 2, 5, 6, 9, 10} {
			f[i] = tok("f"+vpNum(i), 1)
		}
	case 1:
		for _, i := range []int{1, 7} {
			f[i] = tok("f"+vpNum(i), 2)
		}
	case 2:
		f = f[:10]
		f[0] = tok("f0", 1)
	case 3:
		f = append(f, tok("t0", 4))
	case 4:
		f = append(f, tok("t0", 5))
	case 5:
		f = append(f, "XA:i:1", tok("t1", 4))
	case 6:
		f[3], f[4], f[8] = tok("f3", 2), tok("f4", 1), tok("f8", 1)
	case 7:
		f = append(f, "X"+tok("ta", 1)+":"+tok("tb", 1)+":"+tok("tc", 2))
	case 8:
		// concrete float tags that are not representable in float32
		f[0] = tok("f0", 1)
		f = append(f, "XF:f:0.1", "XG:f:16777217", "XH:f:-1e300", "XI:f:3.14159265358979")
	}
	var out []byte
	for i, x := range f {
		if i > 0 {
			out = append(out, '\t')
		}
		out = append(out, x...)
	}
	return append(out, '\n')
}

func vpFixedPoint(rec any) (bool, bool) {
	s := rec.(*SAM)
	// (float tags take part: a float parsed from concrete text is exact, and
	// the arbitrary-result stub used on symbolic text returns concrete values)
	for _, f := range []string{s.Qname, s.Rname, s.Cigar, s.Rnext, s.Seq, s.Qual} {
		for i := 0; i < len(f); i++ {
			if f[i] == '\t' || f[i] == '\n' || f[i] == '\r' {
				return false, false
			}
		}
	}
	for name, v := range s.Tags {
		for i := 0; i < len(name); i++ {
			if name[i] == '\t' || name[i] == '\n' || name[i] == '\r' {
				return false, false
			}
		}
		if c, ok := v.(byte); ok && (c == '\t' || c == '\n' || c == '\r') {
			return false, false
		}
		if z, ok := v.(string); ok {
			for i := 0; i < len(z); i++ {
				if z[i] == '\t' || z[i] == '\n' || z[i] == '\r' {
					return false, false
				}
			}
		}
	}
	var w vpBuf
	if s.Write(&w) != nil {
		return true, false
	}
	got := vpCollect(vpOneShot(w.b), 3)
	return true, len(got) == 1 && !got[0].err && vpSameSAM(got[0].s, s)
}

func vpOneRecord(i, extra int) []byte {
	var out []byte
	for k := 0; k <= extra; k++ {
		out = append(out, 'q')
	}
	out = append(out, "\t0\tr\t1\t2\t*\t=\t3\t4\t"...)
	for j := 0; j < 8; j++ {
		out = append(out, "ACGT"[(i+j*j)%4])
	}
	out = append(out, '\t')
	for j := 0; j < 8; j++ {
		out = append(out, byte('!'+(i*3+j)%40))
	}
	return append(out, '\n')
}

func vpKeyOf(rec any) []byte { return vpKey(rec.(*SAM)) }

func vpBlankLinesOK() bool { return true }
