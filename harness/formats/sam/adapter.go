package sam

import "io"

type vpIt struct {
	key []byte
	err bool
}

func vpKey(s *SAM) []byte {
	// the written form is an unambiguous key for records in the domain
	txt, _ := s.MarshalText()
	return append([]byte{'S'}, txt...)
}

func vpItemOf(s *SAM, h *string, err error) vpIt {
	it := vpIt{err: err != nil}
	if err == nil {
		if h != nil {
			it.key = append([]byte{'H'}, *h...)
		} else if s != nil {
			it.key = vpKey(s)
		}
	}
	return it
}

// api 0 = Reader / File, api 1 = ReaderHeader / FileHeader
func vpIter(api int, r io.Reader, fn func(vpIt) bool) {
	if api == 1 {
		for sh, err := range ReaderHeader(r) {
			if !fn(vpItemOf(sh.S, sh.H, err)) {
				break
			}
		}
		return
	}
	for s, err := range Reader(r) {
		if !fn(vpItemOf(s, nil, err)) {
			break
		}
	}
}

func vpIterFile(api int, path string, fn func(vpIt) bool) {
	if api == 1 {
		for sh, err := range FileHeader(path) {
			if !fn(vpItemOf(sh.S, sh.H, err)) {
				break
			}
		}
		return
	}
	for s, err := range File(path) {
		if !fn(vpItemOf(s, nil, err)) {
			break
		}
	}
}

func vpErrIsLast() bool { return false }

func vpSampleRecs(tag string, shape int) (hdr []string, recs []*SAM) {
	switch shape {
	case 0:
		return nil, []*SAM{vpRecord(tag+"a.", 1, 0, 0, 0)}
	case 1:
		return []string{"@HD\tVN:1"}, []*SAM{vpRecord(tag+"a.", 1, 0, 1, 3), vpRecord(tag+"b.", 0, 0, 0, 0)}
	case 2:
		return []string{"@a", "@b\tc"}, []*SAM{vpRecord(tag+"a.", 1, 1, 0, 0)}
	}
	return nil, []*SAM{vpRecord(tag+"a.", 1, 0, 0, 0), vpRecord(tag+"b.", 1, 0, 0, 0), vpRecord(tag+"c.", 0, 0, 1, 1)}
}

func vpSample(tag string, shape int) []byte {
	hdr, recs := vpSampleRecs(tag, shape)
	var w vpBuf
	for _, h := range hdr {
		w.b = append(append(w.b, h...), '\n')
	}
	for _, s := range recs {
		s.Write(&w)
	}
	return w.b
}

func vpWriteSample(tag string, shape int, w io.Writer) (error, int) {
	_, recs := vpSampleRecs(tag, shape)
	total := 0
	for _, s := range recs {
		txt, _ := s.MarshalText()
		total += len(txt)
		if err := s.Write(w); err != nil {
			return err, total
		}
	}
	return nil, total
}
