package smtext

import (
	"github.com/fluhus/biostuff/align"
)

var vpPFCount int

// vpParseFloatStub: arbitrary result for ParseFloat on symbolic text
// (totality harness only).
func vpParseFloatStub(s string, bits int) (float64, error) {
	vpPFCount++
	k := vpChoice("parsefloat"+vpNum(vpPFCount), 3)
	if k == 0 {
		return 0, vpErrRead
	}
	return []float64{0, 1.5}[k-1], nil
}

// VP_C11_NCBI: arbitrary bytes never make ReadNCBI panic; it returns a matrix
// or an error, never both.
func VP_C11_NCBI() {
	shape := vpCase("shape")
	var data []byte
	if shape < 0 {
		data = vpBytes("raw", -shape)
	} else {
		// 2x2 grid of 1..2-byte tokens separated by single blanks
		tok := func(name string, n int) []byte {
			b := vpBytes(name, n)
			for _, c := range b {
				vpAssume(c != '\n')
			}
			return b
		}
		data = append(data, ' ')
		data = append(data, tok("c0", 1)...)
		data = append(data, ' ')
		data = append(data, tok("c1", 1+shape)...)
		data = append(data, '\n')
		data = append(data, tok("r0", 1)...)
		data = append(data, ' ')
		data = append(data, tok("v0", 1)...)
		data = append(data, ' ')
		data = append(data, tok("v1", 1)...)
		data = append(data, '\n')
	}
	var m align.SubstitutionMatrix
	var err error
	p := vpPanics(func() { m, err = ReadNCBI(vpOneShot(data)) })
	vpAssert(!p, "ReadNCBI does not panic")
	if !p {
		vpAssert((m == nil) != (err == nil), "a matrix or an error, never a partial matrix with an error")
	}
	vpReach("end")
}

// (0.1, -1.7 and 16777217 are not representable in float32; 1e300 is beyond its range)
var vpScores = []string{"1", "-2", "0.5", "0.1", "1e3", "-1.7", "-0", "16777217", "1e300"}
var vpScoreVals = []float64{1, -2, 0.5, 0.1, 1e3, -1.7, 0, 16777217, 1e300}

func vpLabel(name string) byte { return vpLabelAt(name, false) }

// vpLabelAt: a label is any non-whitespace byte; '#' only where it is not the
// first byte of its line (a line beginning with '#' is a comment).
func vpLabelAt(name string, hashOK bool) byte {
	c := vpByte(name)
	vpAssume(c != ' ' && c != '\t' && c != '\n' && c != '\r' && c != '\f')
	if !hashOK {
		vpAssume(c != '#')
	}
	// byte 255 is reserved for the gap symbol in substitution matrices
	vpAssume(c != align.Gap)
	return c
}

// vpSep is a run of n symbolic whitespace bytes (RE2 \s minus LF).
func vpSep(name string, n int) []byte {
	b := vpBytes(name, n)
	for _, c := range b {
		vpAssume(c == ' ' || c == '\t' || c == '\r' || c == '\f')
	}
	return b
}

// VP_C20_ReadNCBI: ReadNCBI recovers exactly the (row, column) -> score pairs
// of a table with symbolic labels, symbolic whitespace, comment and empty
// lines, LF or CRLF; corrupt = 0 none, 1 value missing, 2 extra value,
// 3 non-numeric token, 4 two-character label.
func VP_C20_ReadNCBI() {
	rows, cols, corrupt, layout := vpCase("rows"), vpCase("cols"), vpCase("corrupt"), vpCase("layout")
	// the layout bits choose: CRLF, final newline, comment/empty lines before
	// each line, and the length (1 or 2) of each whitespace run
	bit := 0
	next := func() bool { b := (layout>>bit)&1 == 1; bit++; return b }
	eol := "\n"
	if next() {
		eol = "\r\n"
	}
	finalEol := next()
	var data []byte
	extra := func() {
		if next() {
			data = append(data, "# comment"+eol...)
		}
		if next() {
			data = append(data, eol...)
		}
	}
	sep := func(name string) []byte {
		n := 1
		if next() {
			n = 2
		}
		return vpSep(name, n)
	}
	mapGap := func(c byte) byte {
		if c == '*' {
			return align.Gap
		}
		return c
	}
	colL := make([]byte, cols)
	extra()
	data = append(data, sep("s.h")...)
	for j := 0; j < cols; j++ {
		colL[j] = vpLabelAt("col"+vpDigit(j), true) // the header line begins with white space
		for k := 0; k < j; k++ {
			vpAssume(colL[k] != colL[j])
		}
		data = append(data, colL[j])
		if corrupt == 4 && j == cols-1 {
			data = append(data, vpLabel("col.x"))
		}
		if j < cols-1 {
			data = append(data, sep("s.h"+vpDigit(j))...)
		}
	}
	data = append(data, eol...)
	// pad (optional): a block of comment lines of about `pad` bytes after the
	// header line, so that the table is longer than the Scanner's buffer and
	// the buffer is refilled between the header and the rows
	for n := vpCaseOr("pad", 0); n > 0; n -= 100 {
		data = append(data, '#')
		for k := 0; k < 98; k++ {
			data = append(data, 'x')
		}
		data = append(data, '\n')
	}
	type entry struct {
		r, c byte
		v    float64
	}
	var want []entry
	rowL := make([]byte, rows)
	for i := 0; i < rows; i++ {
		extra()
		// indent (optional case parameter, one bit per row): the row is
		// indented, and then its label may be '#' as well
		indented := (vpCaseOr("indent", 0)>>i)&1 == 1
		if indented {
			data = append(data, vpSep("s.i"+vpDigit(i), 1)...)
		}
		rowL[i] = vpLabelAt("row"+vpDigit(i), indented)
		for k := 0; k < i; k++ {
			vpAssume(rowL[k] != rowL[i])
		}
		data = append(data, rowL[i])
		n := cols
		if corrupt == 1 && i == rows-1 {
			n--
		}
		if corrupt == 2 && i == rows-1 {
			n++
		}
		for j := 0; j < n; j++ {
			data = append(data, sep("s"+vpDigit(i)+vpDigit(j))...)
			v := (i*cols + j + layout) % len(vpScores)
			if corrupt == 3 && i == rows-1 && j == n-1 {
				data = append(data, "1x"...)
			} else {
				data = append(data, vpScores[v]...)
			}
			if j < cols {
				want = append(want, entry{mapGap(rowL[i]), mapGap(colL[j]), vpScoreVals[v]})
			}
		}
		if i < rows-1 || finalEol {
			data = append(data, eol...)
		}
	}
	rd := vpOneShot(data)
	rd.chunk = vpCaseOr("chunk", 0) // optional: delivered in pieces of this size
	m, err := ReadNCBI(rd)
	if corrupt != 0 {
		vpAssert(err != nil && m == nil, "a malformed table yields an error and no partial matrix")
		vpReach("end")
		return
	}
	vpAssert(err == nil, "a well-formed table is read")
	if err == nil {
		vpAssert(len(m) == len(want), "exactly the pairs of the table")
		ok := true
		for _, e := range want {
			got, has := m[[2]byte{e.r, e.c}]
			ok = ok && has && got == e.v
		}
		vpAssert(ok, "every (row, column) pair has its score, '*' mapped to the gap symbol")
	}
	vpReach("end")
}
