package fasta

import (
	"errors"
	"io"
)

func vpDigit(i int) string { return string(rune('0' + i)) }

func vpNum(i int) string {
	if i < 10 {
		return vpDigit(i)
	}
	return vpNum(i/10) + vpDigit(i%10)
}

// vpBuf is a writer that accepts everything.
type vpBuf struct{ b []byte }

func (w *vpBuf) Write(p []byte) (int, error) {
	w.b = append(w.b, p...)
	return len(p), nil
}

// vpLimitW accepts the first k bytes, then fails.
type vpLimitW struct {
	left int
	got  int
}

var vpErrWrite = errors.New("vp: write failed")

func (w *vpLimitW) Write(p []byte) (int, error) {
	if len(p) <= w.left {
		w.left -= len(p)
		w.got += len(p)
		return len(p), nil
	}
	n := w.left
	w.got += n
	w.left = 0
	return n, vpErrWrite
}

// vpReader delivers data in the chunks given by cuts (ascending offsets), then
// either EOF or, if failAt >= 0, a non-EOF error after failAt bytes (once, or
// forever). eofWithData returns the last chunk together with io.EOF.
type vpReader struct {
	data        []byte
	pos         int
	cuts        []int
	failAt      int
	failForever bool
	failed      bool
	eofWithData bool
	reads       int
}

var vpErrRead = errors.New("vp: read failed")

func vpOneShot(b []byte) *vpReader { return &vpReader{data: b, failAt: -1} }

func (r *vpReader) Read(p []byte) (int, error) {
	r.reads++
	if len(p) == 0 {
		return 0, nil
	}
	end := len(r.data)
	if r.failAt >= 0 && r.failAt < end {
		end = r.failAt
	}
	if r.pos >= end {
		if r.failAt >= 0 && (!r.failed || r.failForever) {
			r.failed = true
			return 0, vpErrRead
		}
		return 0, io.EOF
	}
	stop := end
	for _, c := range r.cuts {
		if c > r.pos && c < stop {
			stop = c
		}
	}
	n := copy(p, r.data[r.pos:stop])
	r.pos += n
	if r.eofWithData && r.pos >= end && r.failAt < 0 {
		return n, io.EOF
	}
	return n, nil
}
