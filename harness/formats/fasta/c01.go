package fasta

import "bytes"

type vpRec struct {
	name, seq []byte
	err       bool
}

func vpCollect(r *vpReader, cap int) []vpRec {
	var out []vpRec
	for fa, err := range Reader(r) {
		if err != nil {
			out = append(out, vpRec{err: true})
		} else {
			out = append(out, vpRec{name: fa.Name, seq: fa.Sequence})
		}
		if len(out) >= cap {
			break
		}
	}
	return out
}

func vpSameRecs(a, b []vpRec) bool {
	if len(a) != len(b) {
		return false
	}
	ok := true
	for i := range a {
		ok = ok && a[i].err == b[i].err && bytes.Equal(a[i].name, b[i].name) && bytes.Equal(a[i].seq, b[i].seq)
	}
	return ok
}

// vpRecord is a symbolic record in the property's domain. sparse > 0 makes
// only the bytes near line (80) and buffer (4096) boundaries symbolic and the
// rest a fixed filler, so that very long sequences stay tractable.
func vpRecord(tag string, nameLen, seqLen, sparse int) *Fasta {
	f := &Fasta{}
	if nameLen >= 1000 {
		// a name longer than bufio's buffer: symbolic only at its ends and
		// around the 4096-byte boundaries
		f.Name = vpSparse(tag+"name", nameLen, func(b byte) bool { return b != '\n' && b != '\r' })
	} else {
		f.Name = vpBytes(tag+"name", nameLen)
		for _, b := range f.Name {
			vpAssume(b != '\n' && b != '\r')
		}
	}
	if sparse == 0 {
		f.Sequence = vpBytes(tag+"seq", seqLen)
		for _, b := range f.Sequence {
			vpAssume(b != '\n' && b != '\r' && b != '>')
		}
		return f
	}
	f.Sequence = make([]byte, seqLen)
	for i := range f.Sequence {
		f.Sequence[i] = "ACGT"[i&3]
		near := i < 2 || i >= seqLen-2 || i%80 == 0 || i%80 == 79 || i%4096 >= 4094 || i%4096 < 2
		if near && (i < 200 || i >= seqLen-200 || i%sparse < 80) {
			b := vpByte(tag + "seq[" + vpNum(i) + "]")
			vpAssume(b != '\n' && b != '\r' && b != '>')
			f.Sequence[i] = b
		}
	}
	return f
}

// VP_C01_RoundTrip: records written with Write/MarshalText read back unchanged.
func VP_C01_RoundTrip() {
	nrec := vpCase("records")
	var recs []*Fasta
	var given []vpRec
	var w vpBuf
	for r := 0; r < nrec; r++ {
		f := vpRecord("r"+vpDigit(r)+".", vpCase("nameLen"+vpDigit(r)), vpCase("seqLen"+vpDigit(r)), vpCase("sparse"))
		if vpCaseOr("shared", 0) == 1 {
			// name and sequence cut from one buffer, as a caller that slices
			// records out of a larger buffer has them
			c := vpCarve(f.Name, f.Sequence)
			f.Name, f.Sequence = c[0], c[1]
		}
		// what the caller handed over, before any writer touched it
		given = append(given, vpRec{name: append([]byte(nil), f.Name...), seq: append([]byte(nil), f.Sequence...)})
		recs = append(recs, f)
		before := len(w.b)
		vpAssert(f.Write(&w) == nil, "Write succeeds")
		txt, err := f.MarshalText()
		vpAssert(err == nil && bytes.Equal(txt, w.b[before:]), "MarshalText and Write produce identical bytes")
		// bytes handed out by MarshalText belong to the caller: a later call
		// for another record must not disturb them
		(&Fasta{Name: []byte("zz"), Sequence: []byte("TTTTTTTT")}).MarshalText()
		vpAssert(bytes.Equal(txt, w.b[before:]), "bytes returned by MarshalText are not disturbed by a later MarshalText call")
		// shape: '>' name line, then lines of 1..80 sequence bytes
		out := w.b[before:]
		ok := len(out) >= 2+len(f.Name) && out[0] == '>' && bytes.Equal(out[1:1+len(f.Name)], f.Name) && out[1+len(f.Name)] == '\n'
		vpAssert(ok, "a '>' name line per record")
		if ok {
			rest := out[2+len(f.Name):]
			lines, cur, good := 0, 0, true
			var joined []byte
			for _, c := range rest {
				if c == '\n' {
					good = good && cur >= 1 && cur <= 80
					cur = 0
					lines++
				} else {
					cur++
					joined = append(joined, c)
				}
			}
			vpAssert(good && cur == 0, "sequence lines of 1..80 characters, each terminated")
			vpAssert(bytes.Equal(joined, f.Sequence), "sequence lines concatenate to the sequence")
			vpAssert(lines == (len(f.Sequence)+79)/80, "no more lines than needed")
		}
	}
	got := vpCollect(vpOneShot(w.b), nrec+3)
	want := make([]vpRec, 0, nrec)
	for _, f := range recs {
		want = append(want, vpRec{name: f.Name, seq: f.Sequence})
	}
	vpAssert(vpSameRecs(given, want), "writing does not alter the records")
	vpAssert(vpSameRecs(got, given), "Reader yields exactly the written records in order")
	vpObserveInt("bytes", len(w.b))
	vpReach("end")
}

// vpRefDecode is the reference decoder: split at line terminators (LF or
// CRLF), drop empty lines, a line starting with '>' opens a record, all other
// lines are concatenated to the current record's sequence. Line structure
// beyond that is ignored by construction.
func vpRefDecode(data []byte) []vpRec {
	var out []vpRec
	start := 0
	flush := func(line []byte) {
		if len(line) > 0 && line[len(line)-1] == '\r' {
			line = line[:len(line)-1]
		}
		if len(line) == 0 {
			return
		}
		if line[0] == '>' {
			out = append(out, vpRec{name: append([]byte(nil), line[1:]...)})
			return
		}
		if len(out) == 0 {
			out = append(out, vpRec{})
		}
		out[len(out)-1].seq = append(out[len(out)-1].seq, line...)
	}
	for i, c := range data {
		if c == '\n' {
			flush(data[start:i])
			start = i + 1
		}
	}
	flush(data[start:])
	return out
}

// VP_C01_Layout: for every byte string of N bytes that starts with '>' (every
// CR followed by LF), Reader decodes exactly what the line-structure-agnostic
// reference decodes: re-wrapping, blank lines, CRLF and a missing final
// newline cannot change the records.
func VP_C01_Layout() {
	n := vpCase("n")
	data := vpBytes("d", n)
	vpAssume(data[0] == '>')
	// optional split of the same search over several workers
	if sl := vpCaseOr("slice", -1); sl >= 0 && n > 1 {
		vpAssume(int(data[1]>>4) == sl)
	}
	for i := range data {
		if i+1 < n {
			vpAssume(data[i] != '\r' || data[i+1] == '\n')
		} else {
			vpAssume(data[i] != '\r')
		}
	}
	want := vpRefDecode(data)
	got := vpCollect(vpOneShot(append([]byte(nil), data...)), n+3)
	vpAssert(vpSameRecs(got, want), "Reader decodes what the layout-agnostic reference decodes")
	vpReach("end")
}
