package fasta

import "io"

type vpIt struct {
	key []byte
	err bool
	rec any
	bad bool
}

func vpKey(f *Fasta) []byte {
	k := append([]byte{byte(len(f.Name))}, f.Name...)
	return append(append(k, 0xff), f.Sequence...)
}

func vpIter(api int, r io.Reader, fn func(vpIt) bool) {
	for fa, err := range Reader(r) {
		it := vpIt{err: err != nil}
		it.bad = (fa == nil) == (err == nil)
		if fa != nil {
			it.rec = fa
		}
		if err == nil {
			it.key = vpKey(fa)
		}
		if !fn(it) {
			break
		}
	}
}

// vpFileRunner takes ONE File(path) iterator value and returns a function that
// ranges over that same value each time it is called.
func vpFileRunner(api int, path string) func(fn func(vpIt) bool) {
	seq := File(path)
	return func(fn func(vpIt) bool) {
		for fa, err := range seq {
			it := vpIt{err: err != nil}
			if err == nil {
				it.key = vpKey(fa)
			}
			if !fn(it) {
				break
			}
		}
	}
}

func vpIterFile(api int, path string, fn func(vpIt) bool) { vpFileRunner(api, path)(fn) }

func vpRawOK(c byte) bool { return true }

func vpErrIsLast() bool { return true }

// shapes: 0 = one record (name 1, seq 2); 1 = two records; 2 = record with an
// 81-byte sequence (two lines); 3 = three records incl. an empty sequence
func vpSampleRecs(tag string, shape int) []*Fasta {
	switch shape {
	case 4:
		return []*Fasta{vpRecord(tag+"a.", 1, 4200, 4096), vpRecord(tag+"b.", 1, 2, 0)}
	case 0:
		return []*Fasta{vpRecord(tag+"a.", 1, 2, 0)}
	case 1:
		return []*Fasta{vpRecord(tag+"a.", 1, 2, 0), vpRecord(tag+"b.", 0, 1, 0)}
	case 2:
		return []*Fasta{vpRecord(tag+"a.", 1, 81, 0)}
	case 5: // four sequence lines, the last one short
		return []*Fasta{vpRecord(tag+"a.", 1, 241, 0)}
	}
	return []*Fasta{vpRecord(tag+"a.", 1, 1, 0), vpRecord(tag+"b.", 1, 0, 0), vpRecord(tag+"c.", 0, 2, 0)}
}

func vpSample(tag string, shape int) []byte {
	var w vpBuf
	for _, f := range vpSampleRecs(tag, shape) {
		f.Write(&w)
	}
	return w.b
}

func vpWriteSample(tag string, shape int, w io.Writer) (error, int) {
	total := 0
	for _, f := range vpSampleRecs(tag, shape) {
		txt, _ := f.MarshalText()
		total += len(txt)
		if err := f.Write(w); err != nil {
			return err, total
		}
	}
	return nil, total
}

func vpTemplate(k int) []byte {
	// '>' + name token, newline, two sequence tokens on separate lines
	var out []byte
	out = append(out, '>')
	out = append(out, vpBytes("t0", 1)...)
	out = append(out, '\n')
	out = append(out, vpBytes("t1", 2)...)
	out = append(out, '\n')
	out = append(out, vpBytes("t2", 1+k)...)
	return out
}

func vpFixedPoint(rec any) (bool, bool) {
	f := rec.(*Fasta)
	for _, c := range f.Name {
		if c == '\n' || c == '\r' {
			return false, false
		}
	}
	for _, c := range f.Sequence {
		if c == '\n' || c == '\r' || c == '>' {
			return false, false
		}
	}
	var w vpBuf
	if f.Write(&w) != nil {
		return true, false
	}
	got := vpCollect(vpOneShot(w.b), 3)
	return true, len(got) == 1 && !got[0].err && string(got[0].name) == string(f.Name) && string(got[0].seq) == string(f.Sequence)
}

func vpOneRecord(i, extra int) []byte {
	out := []byte{'>'}
	for k := 0; k <= extra; k++ {
		out = append(out, 'n')
	}
	out = append(out, '\n')
	for j := 0; j < 8; j++ {
		out = append(out, "ACGT"[(i+j*j)%4])
	}
	return append(out, '\n')
}

func vpKeyOf(rec any) []byte { return vpKey(rec.(*Fasta)) }

func vpBlankLinesOK() bool { return true }
