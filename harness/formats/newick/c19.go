package newick


// vpTree builds an ordered tree with n nodes. Nodes are numbered in pre-order;
// node i (i>0) is attached as the last child of one of the nodes on the path
// from the root to node i-1 (a nondeterministic choice), which enumerates
// every ordered tree with n nodes exactly once.
func vpTree(n int) []*Node {
	nodes := make([]*Node, n)
	depth := make([]int, n)
	parent := make([]int, n)
	for i := 0; i < n; i++ {
		nodes[i] = &Node{Name: "n" + vpDigit(i)}
		if i == 0 {
			continue
		}
		// ancestors-or-self of node i-1, by depth
		up := vpChoice("up"+vpDigit(i), depth[i-1]+1)
		p := i - 1
		for k := 0; k < up; k++ {
			p = parent[p]
		}
		parent[i] = p
		depth[i] = depth[p] + 1
		nodes[p].Children = append(nodes[p].Children, nodes[i])
	}
	// flat=1: every node's Children is a sub-slice of ONE backing array, the
	// lists lying one after the other (a tree built by slicing one node
	// list): the spare capacity of each list is the next node's list, so an
	// append to a Children slice overwrites a sibling's children
	if vpCaseOr("flat", 0) == 1 {
		var flat []*Node
		for _, nd := range nodes {
			flat = append(flat, nd.Children...)
		}
		flat = append(flat, nil, nil)
		off := 0
		for _, nd := range nodes {
			k := len(nd.Children)
			if k > 0 {
				nd.Children = flat[off : off+k]
			}
			off += k
		}
	}
	// leaves: Children nil (as the Reader builds them), or an empty non-nil
	// slice (a node built with Children: []*Node{} or pruned with
	// Children[:0]); emptyKids=1 all leaves, 2 a nondeterministic subset
	if ek := vpCaseOr("emptyKids", 0); ek > 0 {
		for i := 0; i < n; i++ {
			if len(nodes[i].Children) == 0 && (ek == 1 || vpChoice("ek"+vpDigit(i), 2) == 1) {
				nodes[i].Children = make([]*Node, 0, 1)
			}
		}
	}
	return nodes
}

func vpPre(n *Node, out []*Node) []*Node {
	out = append(out, n)
	for _, c := range n.Children {
		out = vpPre(c, out)
	}
	return out
}

func vpPost(n *Node, out []*Node) []*Node {
	for _, c := range n.Children {
		out = vpPost(c, out)
	}
	return append(out, n)
}

func vpSameNodes(a, b []*Node) bool {
	if len(a) != len(b) {
		return false
	}
	for i := range a {
		if a[i] != b[i] {
			return false
		}
	}
	return true
}

// VP_C19_Traverse: PreOrder/PostOrder equal the recursive traversals on every
// ordered tree with n nodes and leave the tree unchanged.
func VP_C19_Traverse() {
	n := vpCase("n")
	nodes := vpTree(n)
	root := nodes[0]
	// snapshot
	kids := make([][]*Node, n)
	for i, nd := range nodes {
		kids[i] = append([]*Node(nil), nd.Children...)
	}
	var pre, post []*Node
	preSeq, postSeq := root.PreOrder(), root.PostOrder()
	// (a traversal that never ends is cut off after 4n+8 nodes and fails the
	// comparison; the reference traversals run on the snapshot taken before)
	limit := 4*n + 8
	wantPre, wantPost := vpPre(root, nil), vpPost(root, nil)
	for nd := range preSeq {
		pre = append(pre, nd)
		if len(pre) > limit {
			break
		}
	}
	for nd := range postSeq {
		post = append(post, nd)
		if len(post) > limit {
			break
		}
	}
	vpAssert(vpSameNodes(pre, wantPre), "PreOrder equals the recursive pre-order")
	vpAssert(vpSameNodes(post, wantPost), "PostOrder equals the recursive post-order")
	// the iterator values are functions: ranging over the same value again is
	// another complete traversal
	var pre2, post2 []*Node
	// (abandoned after the first node in between)
	for range preSeq {
		break
	}
	for range postSeq {
		break
	}
	for nd := range preSeq {
		pre2 = append(pre2, nd)
		if len(pre2) > limit {
			break
		}
	}
	for nd := range postSeq {
		post2 = append(post2, nd)
		if len(post2) > limit {
			break
		}
	}
	vpAssert(vpSameNodes(pre2, pre) && vpSameNodes(post2, post), "ranging over the same iterator value again gives the same traversal")
	vpAssert(len(pre) == n && len(post) == n, "every node exactly once")
	same := true
	for i, nd := range nodes {
		same = same && vpSameNodes(nd.Children, kids[i]) && nd.Name == "n"+vpDigit(i) && nd.Distance == 0
	}
	vpAssert(same, "traversal does not modify the tree")
	vpObserveInt("first-post", int(post[0].Name[1]-'0'))
	vpReach("end")
}

// VP_C18_Traversal: PreOrder/PostOrder can be stopped after any number of
// nodes: no further callback, no panic, the nodes seen are the leading nodes.
func VP_C18_Traversal() {
	n := vpCase("n")
	nodes := vpTree(n)
	root := nodes[0]
	post := vpCase("post") == 1
	var full []*Node
	if post {
		full = vpPost(root, nil)
	} else {
		full = vpPre(root, nil)
	}
	stop := vpChoice("stop", n)
	var got []*Node
	var stopped func(func(*Node) bool)
	after := 0
	p := vpPanics(func() {
		seq := root.PreOrder()
		if post {
			seq = root.PostOrder()
		}
		stopped = seq
		declined := false
		seq(func(nd *Node) bool {
			if declined {
				after++
				return false
			}
			got = append(got, nd)
			if len(got) > stop {
				declined = true
				return false
			}
			return true
		})
	})
	vpAssert(!p, "stopping a traversal early does not panic")
	vpAssert(after == 0, "no callback after the consumer declined")
	vpAssert(vpSameNodes(got, full[:stop+1]), "the nodes seen are the leading nodes of the full traversal")
	// the same iterator value ranged over again after the early stop is a new,
	// uninterrupted run
	var again []*Node
	p = vpPanics(func() {
		for nd := range stopped {
			again = append(again, nd)
		}
	})
	vpAssert(!p && vpSameNodes(again, full), "the same iterator run again after an early stop yields the full traversal")
	// the same through a range statement with break (compiler-generated yield wrapper)
	var got2 []*Node
	p = vpPanics(func() {
		if post {
			for nd := range root.PostOrder() {
				got2 = append(got2, nd)
				if len(got2) > stop {
					break
				}
			}
		} else {
			for nd := range root.PreOrder() {
				got2 = append(got2, nd)
				if len(got2) > stop {
					break
				}
			}
		}
	})
	vpAssert(!p && vpSameNodes(got2, full[:stop+1]), "range ... break over a traversal")
	vpReach("end")
}

// VP_C19_Deep: on a chain of `depth` nodes (with a second leaf child every
// `fan` levels) the traversals equal an iterative reference and the call
// depth inside the callback does not grow with the depth of the tree.
func VP_C19_Deep() {
	depth, fan := vpCase("depth"), vpCase("fan")
	root := &Node{}
	cur := root
	total := 1
	for i := 1; i < depth; i++ {
		nx := &Node{}
		cur.Children = append(cur.Children, nx)
		total++
		if fan > 0 && i%fan == 0 {
			cur.Children = append(cur.Children, &Node{})
			total++
		}
		cur = nx
	}
	base := vpStackDepth()
	maxd, count := 0, 0
	var first, last *Node
	vpPeakMark() // the whole of both traversals, not only the moments of the callbacks
	for nd := range root.PreOrder() {
		if d := vpStackDepth() - base; d > maxd {
			maxd = d
		}
		if count == 0 {
			first = nd
		}
		count++
	}
	vpAssert(count == total && first == root, "PreOrder visits every node of a deep tree once, root first")
	count = 0
	for nd := range root.PostOrder() {
		if d := vpStackDepth() - base; d > maxd {
			maxd = d
		}
		last = nd
		count++
	}
	vpAssert(count == total && last == root, "PostOrder visits every node of a deep tree once, root last")
	peak := vpPeakDepth()
	vpAssert(maxd <= 40, "the call depth during traversal does not grow with the depth of the tree")
	if depth >= 50000 {
		// (frames symbolically, KiB of stack growth natively: see vpPeakDepth)
		vpAssert(peak <= 1000, "no part of a traversal makes one nested call per level of the tree")
	}
	vpObserveInt("nodes", total)
	vpReach("end")
}

// VP_C19_Nested: a traversal started while another one is in progress, after
// earlier traversals have run to completion, does not disturb the outer one
// (the traversal keeps no state outside the iteration).
func VP_C19_Nested() {
	n := vpCase("n")
	nodes := vpTree(n)
	root := nodes[0]
	wantPre, wantPost := vpPre(root, nil), vpPost(root, nil)
	// warm-up: complete traversals first
	for range root.PreOrder() {
	}
	for range root.PostOrder() {
	}
	var outer []*Node
	innerOK := true
	for a := range root.PreOrder() {
		outer = append(outer, a)
		var inner []*Node
		for b := range root.PostOrder() {
			inner = append(inner, b)
		}
		innerOK = innerOK && vpSameNodes(inner, wantPost)
	}
	vpAssert(vpSameNodes(outer, wantPre), "an outer PreOrder is not disturbed by traversals run inside its loop")
	vpAssert(innerOK, "traversals run inside another traversal are complete")
	outer = nil
	for a := range root.PostOrder() {
		outer = append(outer, a)
		for range a.PreOrder() {
		}
	}
	vpAssert(vpSameNodes(outer, wantPost), "an outer PostOrder is not disturbed by traversals run inside its loop")
	vpReach("end")
}

// VP_C19_Wide: a node with `width` children (more than any 8- or 16-bit child
// counter holds), the last of which has a child of its own: both traversals
// visit every node once in the documented order.
func VP_C19_Wide() {
	w := vpCase("width")
	root := &Node{}
	kids := make([]*Node, w)
	for i := range kids {
		kids[i] = &Node{}
	}
	root.Children = kids
	leaf := &Node{}
	kids[w-1].Children = []*Node{leaf}
	i, ok := 0, true
	for nd := range root.PreOrder() {
		switch {
		case i == 0:
			ok = ok && nd == root
		case i <= w:
			ok = ok && nd == kids[i-1]
		default:
			ok = ok && i == w+1 && nd == leaf
		}
		i++
		if i > w+4 {
			break
		}
	}
	vpAssert(ok && i == w+2, "PreOrder over a very wide node: root, the children in slice order, then the grandchild")
	i, ok = 0, true
	for nd := range root.PostOrder() {
		switch {
		case i < w-1:
			ok = ok && nd == kids[i]
		case i == w-1:
			ok = ok && nd == leaf
		case i == w:
			ok = ok && nd == kids[w-1]
		default:
			ok = ok && i == w+1 && nd == root
		}
		i++
		if i > w+4 {
			break
		}
	}
	vpAssert(ok && i == w+2, "PostOrder over a very wide node")
	vpObserveInt("nodes", i)
	vpReach("end")
}

// VP_C19_Late: the iterator values are taken while the start node has no
// children yet; the tree is built afterwards and only then ranged over. An
// iterator is a function of the node, evaluated when it is ranged.
func VP_C19_Late() {
	n := vpCase("n")
	root := &Node{Name: "n0"}
	preSeq, postSeq := root.PreOrder(), root.PostOrder()
	nodes := vpTree(n)
	root.Children = nodes[0].Children
	var pre, post []*Node
	for nd := range preSeq {
		pre = append(pre, nd)
		if len(pre) > 4*n+8 {
			break
		}
	}
	for nd := range postSeq {
		post = append(post, nd)
		if len(post) > 4*n+8 {
			break
		}
	}
	vpAssert(vpSameNodes(pre, vpPre(root, nil)), "PreOrder taken before the tree was built traverses the tree as it is when ranged")
	vpAssert(vpSameNodes(post, vpPost(root, nil)), "PostOrder taken before the tree was built traverses the tree as it is when ranged")
	// the tree changes again (a leaf added under the last node of the
	// pre-order, the first child of the root removed) and the SAME iterator
	// values are ranged once more: they walk the tree as it is now
	last := pre[len(pre)-1]
	last.Children = append(last.Children, &Node{Name: "late"})
	if len(root.Children) > 1 {
		root.Children = root.Children[1:]
	}
	pre, post = nil, nil
	for nd := range preSeq {
		pre = append(pre, nd)
		if len(pre) > 4*n+8 {
			break
		}
	}
	for nd := range postSeq {
		post = append(post, nd)
		if len(post) > 4*n+8 {
			break
		}
	}
	vpAssert(vpSameNodes(pre, vpPre(root, nil)), "PreOrder ranged again after the tree changed traverses the tree as it is now")
	vpAssert(vpSameNodes(post, vpPost(root, nil)), "PostOrder ranged again after the tree changed traverses the tree as it is now")
	vpReach("end")
}
