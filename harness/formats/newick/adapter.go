package newick

import "io"

type vpIt struct {
	key []byte
	err bool
}

// vpKey serialises a tree unambiguously (names length-prefixed).
func vpKey(n *Node, out []byte) []byte {
	out = append(out, byte(len(n.Children)), byte(len(n.Name)))
	out = append(out, n.Name...)
	if n.Distance != 0 {
		out = append(out, 'd')
		txt, _ := (&Node{Distance: n.Distance}).MarshalText()
		out = append(out, txt...)
	}
	for _, c := range n.Children {
		out = vpKey(c, out)
	}
	return out
}

func vpIter(api int, r io.Reader, fn func(vpIt) bool) {
	for n, err := range Reader(r) {
		it := vpIt{err: err != nil}
		if err == nil {
			it.key = vpKey(n, nil)
		}
		if !fn(it) {
			break
		}
	}
}

func vpIterFile(api int, path string, fn func(vpIt) bool) {
	for n, err := range File(path) {
		it := vpIt{err: err != nil}
		if err == nil {
			it.key = vpKey(n, nil)
		}
		if !fn(it) {
			break
		}
	}
}

func vpErrIsLast() bool { return true }

func vpSampleTrees(tag string, shape int) []*Node {
	// one symbolic name byte per sample (every byte value, so quoting and
	// whitespace classes are covered); the other names are fixed
	sym := func() *Node { return &Node{Name: vpName(tag+"a", 1)} }
	switch shape {
	case 0:
		return []*Node{sym()}
	case 1:
		return []*Node{{Name: "r", Children: []*Node{sym(), {Name: "x y", Distance: 1.5}}}, {Name: "b"}}
	case 2:
		return []*Node{{Children: []*Node{{Children: []*Node{sym()}, Distance: -2}}, Name: "it's"}}
	}
	return []*Node{{Name: "a_b"}, {}, {Children: []*Node{sym(), {Name: "d"}}}}
}

// vpSample writes the trees one per line (LF between them), so that the CRLF
// variant is meaningful.
func vpSample(tag string, shape int) []byte {
	var out []byte
	for _, t := range vpSampleTrees(tag, shape) {
		txt, _ := t.MarshalText()
		out = append(out, txt...)
		out = append(out, '\n')
	}
	return out
}

func vpWriteSample(tag string, shape int, w io.Writer) (error, int) {
	total := 0
	for _, t := range vpSampleTrees(tag, shape) {
		txt, _ := t.MarshalText()
		total += len(txt)
		if err := t.Write(w); err != nil {
			return err, total
		}
	}
	return nil, total
}
