package newick

import "io"

type vpIt struct {
	key []byte
	err bool
	rec any
	bad bool
}

// vpKey serialises a tree unambiguously (names length-prefixed).
func vpKey(n *Node, out []byte) []byte {
	out = append(out, byte(len(n.Children)), byte(len(n.Name)))
	out = append(out, n.Name...)
	if n.Distance != 0 {
		out = append(out, 'd')
		txt, _ := (&Node{Distance: n.Distance}).MarshalText()
		out = append(out, txt...)
	}
	for _, c := range n.Children {
		out = vpKey(c, out)
	}
	return out
}

func vpIter(api int, r io.Reader, fn func(vpIt) bool) {
	for n, err := range Reader(r) {
		it := vpIt{err: err != nil}
		it.bad = (n == nil) == (err == nil)
		if n != nil {
			it.rec = n
		}
		if err == nil {
			it.key = vpKey(n, nil)
		}
		if !fn(it) {
			break
		}
	}
}

// vpFileRunner takes ONE File(path) iterator value and returns a function that
// ranges over that same value each time it is called.
func vpFileRunner(api int, path string) func(fn func(vpIt) bool) {
	seq := File(path)
	return func(fn func(vpIt) bool) {
		for n, err := range seq {
			it := vpIt{err: err != nil}
			if err == nil {
				it.key = vpKey(n, nil)
			}
			if !fn(it) {
				break
			}
		}
	}
}

func vpIterFile(api int, path string, fn func(vpIt) bool) { vpFileRunner(api, path)(fn) }

func vpRawOK(c byte) bool { return c != ':' }

func vpErrIsLast() bool { return true }

func vpSampleTrees(tag string, shape int) []*Node {
	// one symbolic name byte per sample (every byte value, so quoting and
	// whitespace classes are covered); the other names are fixed
	sym := func() *Node { return &Node{Name: vpName(tag+"a", 1)} }
	switch shape {
	case 4:
		return []*Node{{Name: vpName(tag+"long", 4200)}, {Name: "b"}}
	case 0:
		return []*Node{sym()}
	case 1:
		return []*Node{{Name: "r", Children: []*Node{sym(), {Name: "x y", Distance: 1.5}}}, {Name: "b"}}
	case 2:
		return []*Node{{Children: []*Node{{Children: []*Node{sym()}, Distance: -2}}, Name: "it's"}}
	}
	return []*Node{{Name: "a_b"}, {}, {Children: []*Node{sym(), {Name: "d"}}}}
}

// vpSample writes the trees one per line (LF between them), so that the CRLF
// variant is meaningful.
func vpSample(tag string, shape int) []byte {
	var out []byte
	for _, t := range vpSampleTrees(tag, shape) {
		txt, _ := t.MarshalText()
		out = append(out, txt...)
		out = append(out, '\n')
	}
	return out
}

func vpWriteSample(tag string, shape int, w io.Writer) (error, int) {
	total := 0
	for _, t := range vpSampleTrees(tag, shape) {
		txt, _ := t.MarshalText()
		total += len(txt)
		if err := t.Write(w); err != nil {
			return err, total
		}
	}
	return nil, total
}

var vpPFCount int

// vpParseFloatStub replaces strconv.ParseFloat on symbolic text (totality
// harnesses only): an arbitrary result - an error, or one of a few values.
func vpParseFloatStub(s string, bits int) (float64, error) {
	vpPFCount++
	k := vpChoice("parsefloat"+vpNum(vpPFCount), 4)
	if k == 0 {
		return 0, vpErrRead
	}
	return []float64{0, 1.5, -2}[k-1], nil
}

// vpTemplate: 4+k bytes over the structural alphabet of the format.
func vpTemplate(k int) []byte {
	if k >= 10 {
		// concrete structure with quoted and unquoted names of arbitrary
		// bytes (all 256 values): what the reader accepts inside quotes the
		// writer must emit so that it reads back
		s := vpBytes("t", 3)
		switch k {
		case 10:
			return []byte{'\'', s[0], s[1], '\'', ';'}
		case 11:
			return []byte{'(', s[0], ',', '\'', s[1], '\'', ')', s[2], ';'}
		case 13:
			// concrete branch lengths (negative, exponent form, zero) around
			// symbolic names: these go through the real ParseFloat and
			// FormatFloat, natively too
			return []byte("(" + string(s[0:1]) + ":-2.5," + string(s[1:2]) + ":1e-3,x:0)r:-0.25;")
		}
		return []byte{'(', '\'', s[0], '\'', '\'', s[1], '\'', ':', '1', ')', ';', s[2]}
	}
	raw := vpBytes("t", 4+k)
	const alpha = "(),:;'_ a1"
	for _, c := range raw {
		ok := false
		for i := 0; i < len(alpha); i++ {
			ok = ok || c == alpha[i]
		}
		vpAssume(ok)
	}
	return raw
}

func vpHasDist(n *Node) bool {
	if n.Distance != 0 {
		return true
	}
	for _, c := range n.Children {
		if vpHasDist(c) {
			return true
		}
	}
	return false
}

func vpFixedPoint(rec any) (bool, bool) {
	n := rec.(*Node)
	// (trees with branch lengths take part: lengths parsed from concrete text
	// are exact, and the stub used on symbolic text returns concrete values)
	txt, err := n.MarshalText()
	if err != nil {
		return true, false
	}
	got := vpCollect(vpOneShot(txt), 3)
	return true, len(got) == 1 && !got[0].err && vpSameTree(got[0].n, n)
}

func vpOneRecord(i, extra int) []byte {
	out := []byte{'('}
	for k := 0; k <= extra; k++ {
		out = append(out, 'n')
	}
	out = append(out, ',')
	for j := 0; j < 8; j++ {
		out = append(out, "acgt"[(i+j*j)%4])
	}
	return append(out, ");\n"...)
}

func vpKeyOf(rec any) []byte { return vpKey(rec.(*Node), nil) }

func vpBlankLinesOK() bool { return true }
