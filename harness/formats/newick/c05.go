package newick

import (
	"math"
)

// (the last four need all 16-17 significant digits in their shortest decimal
// form; 9007199254740993 is not a float64 and reads as ...992)
var vpDists = []float64{0, 1.5, -2, 1e21, 1e-7, 5e-324, math.NaN(), math.Inf(1),
	94.05090880450125, 0.30000000000000004, -123456789.12345679, 9007199254740993}

func vpSameFloat(a, b float64) bool {
	if a != a {
		return b != b
	}
	return a == b
}

func vpSameTree(a, b *Node) bool {
	if a == nil || b == nil {
		return a == b
	}
	if a.Name != b.Name || !vpSameFloat(a.Distance, b.Distance) || len(a.Children) != len(b.Children) {
		return false
	}
	for i := range a.Children {
		if !vpSameTree(a.Children[i], b.Children[i]) {
			return false
		}
	}
	return true
}

type vpItem struct {
	n   *Node
	err bool
}

func vpCollect(r *vpReader, cap int) []vpItem {
	var out []vpItem
	for n, err := range Reader(r) {
		out = append(out, vpItem{n, err != nil})
		if len(out) >= cap {
			break
		}
	}
	return out
}

// vpName is a symbolic name of n bytes over all 256 values; while the known
// class "contains a line break" is excluded it has no LF/CR.
func vpName(tag string, n int) string {
	if n >= 1000 {
		// long names: symbolic bytes over lower-case letters only (all byte
		// values are covered by the short names)
		return string(vpSparse(tag, n, func(c byte) bool { return c >= 'a' && c <= 'z' }))
	}
	s := vpStr(tag, n)
	if vpCase("exclLineBreak") == 1 || vpNoLineBreakContent {
		for i := 0; i < len(s); i++ {
			vpAssume(s[i] != '\n' && s[i] != '\r')
		}
	}
	return s
}

// VP_C05_Name: a single node with an arbitrary name survives write -> read;
// the name helpers are mutually inverse.
func VP_C05_Name() {
	name := vpName("name", vpCase("n"))
	// optional split of the same search over several workers
	if sl := vpCaseOr("slice", -1); sl >= 0 && len(name) > 0 {
		vpAssume(int(name[0]>>4) == sl)
	}
	vpAssert(nameFromText(nameToText(name)) == name, "nameFromText inverts nameToText")
	nd := &Node{Name: name}
	txt, err := nd.MarshalText()
	vpAssert(err == nil && len(txt) > 0 && txt[len(txt)-1] == ';', "written form ends with ';'")
	var w vpBuf
	vpAssert(nd.Write(&w) == nil && string(w.b) == string(txt), "Write writes what MarshalText returns")
	(&Node{Name: "zz", Children: []*Node{{Name: "yy"}}}).MarshalText()
	vpAssert(string(w.b) == string(txt), "bytes returned by MarshalText are not disturbed by a later MarshalText call")
	got := vpCollect(vpOneShot(txt), 3)
	vpAssert(len(got) == 1 && !got[0].err, "one tree is read back")
	if len(got) == 1 && !got[0].err {
		vpAssert(got[0].n.Name == name, "the name is read back unchanged")
		vpAssert(len(got[0].n.Children) == 0 && got[0].n.Distance == 0, "a single node")
	}
	vpObserveStr("text", string(txt))
	vpReach("end")
}

// vpCondensed: no whitespace outside quoted names.
func vpCondensed(txt []byte) bool {
	inq := false
	ok := true
	for _, c := range txt {
		if c == '\'' {
			inq = !inq
		} else if !inq {
			ok = ok && c != ' ' && c != '\t' && c != '\n' && c != '\r'
		}
	}
	return ok
}

// vpBuild builds a tree of n nodes (every ordered shape, as in C19); node
// `symNode` gets a symbolic name, the others fixed names that exercise
// quoting; distances are chosen from the literal list.
func vpBuild(tag string, n, symNode, symLen int) *Node {
	fixed := []string{"", "a b", "it's", "x_y", "(c)", "d:e;", "t\tu", "p,q"}
	nodes := vpTree(n)
	v := vpCase("variant")
	for i, nd := range nodes {
		if i == symNode {
			nd.Name = vpName(tag+"name", symLen)
		} else {
			nd.Name = fixed[(i+v)%len(fixed)]
		}
		nd.Distance = vpDists[(3*i+v)%len(vpDists)]
	}
	return nodes[0]
}

// VP_C05_Tree: any tree survives write -> read; the text is condensed.
func VP_C05_Tree() {
	root := vpBuild("t.", vpCase("nodes"), vpCase("symNode"), vpCase("symLen"))
	txt, err := root.MarshalText()
	vpAssert(err == nil && len(txt) > 0 && txt[len(txt)-1] == ';', "written form ends with ';'")
	vpAssert(vpCondensed(txt), "no whitespace outside quoted names")
	keep := string(txt)
	(&Node{Name: "zz", Children: []*Node{{Name: "yy"}}}).MarshalText()
	vpAssert(string(txt) == keep, "bytes returned by MarshalText are not disturbed by a later MarshalText call")
	got := vpCollect(vpOneShot(txt), 3)
	vpAssert(len(got) == 1 && !got[0].err, "one tree is read back")
	if len(got) == 1 && !got[0].err {
		vpAssert(vpSameTree(got[0].n, root), "identical shape, names and branch lengths")
	}
	vpReach("end")
}

// VP_C05_Forest: several trees written one after another, with or without
// whitespace between them, are read back as the same sequence.
func VP_C05_Forest() {
	seps := []string{"", " ", "\n", "\r\n\t"}
	k := vpCase("trees")
	var data []byte
	var want []*Node
	for i := 0; i < k; i++ {
		t := vpBuild("t"+vpDigit(i)+".", vpCase("nodes"), vpCase("symNode"), vpCase("symLen"))
		txt, _ := t.MarshalText()
		data = append(data, txt...)
		data = append(data, seps[vpChoice("sep"+vpDigit(i), len(seps))]...)
		want = append(want, t)
	}
	got := vpCollect(vpOneShot(data), k+2)
	vpAssert(len(got) == k, "as many trees as were written")
	ok := len(got) == k
	for i := 0; ok && i < k; i++ {
		ok = !got[i].err && vpSameTree(got[i].n, want[i])
	}
	vpAssert(ok, "the same sequence of trees")
	vpReach("end")
}

// VP_C05_Deep: a ladder tree `depth` levels deep (every level a named inner
// node with a leaf sibling; the innermost name symbolic): deeper than any
// fixed-size stack in a writer or reader. Written and read back identical.
func VP_C05_Deep() {
	depth := vpCase("depth")
	root := &Node{Name: "r"}
	cur := root
	for i := 1; i < depth; i++ {
		nx := &Node{Name: "n" + vpNum(i), Distance: float64(i%3) / 2}
		cur.Children = []*Node{nx, {Name: "l" + vpNum(i)}}
		cur = nx
	}
	cur.Name = vpName("deep", 1)
	txt, err := root.MarshalText()
	vpAssert(err == nil && vpCondensed(txt), "written form is condensed")
	got := vpCollect(vpOneShot(txt), 3)
	vpAssert(len(got) == 1 && !got[0].err, "one tree is read back")
	if len(got) == 1 && !got[0].err {
		vpAssert(vpSameTree(got[0].n, root), "identical shape, names and branch lengths")
	}
	vpObserveInt("bytes", len(txt))
	vpReach("end")
}
