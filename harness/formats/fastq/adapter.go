package fastq

import "io"

type vpIt struct {
	key []byte
	err bool
	rec any
	bad bool
}

func vpKey(f *Fastq) []byte {
	k := append([]byte{byte(len(f.Name))}, f.Name...)
	k = append(append(k, 0xff, byte(len(f.Sequence))), f.Sequence...)
	return append(append(k, 0xff), f.Quals...)
}

func vpIter(api int, r io.Reader, fn func(vpIt) bool) {
	for fq, err := range Reader(r) {
		it := vpIt{err: err != nil}
		it.bad = (fq == nil) == (err == nil)
		if fq != nil {
			it.rec = fq
		}
		if err == nil {
			it.key = vpKey(fq)
		}
		if !fn(it) {
			break
		}
	}
}

// vpFileRunner takes ONE File(path) iterator value and returns a function that
// ranges over that same value each time it is called.
func vpFileRunner(api int, path string) func(fn func(vpIt) bool) {
	seq := File(path)
	return func(fn func(vpIt) bool) {
		for fq, err := range seq {
			it := vpIt{err: err != nil}
			if err == nil {
				it.key = vpKey(fq)
			}
			if !fn(it) {
				break
			}
		}
	}
}

func vpIterFile(api int, path string, fn func(vpIt) bool) { vpFileRunner(api, path)(fn) }

func vpRawOK(c byte) bool { return true }

func vpErrIsLast() bool { return true }

func vpSampleRecs(tag string, shape int) []*Fastq {
	switch shape {
	case 4:
		return []*Fastq{vpRecord(tag+"a.", 1, 4200, 1), vpRecord(tag+"b.", 1, 2, 0)}
	case 6: // a read longer than 64 KiB between two short ones
		return []*Fastq{vpRecord(tag+"a.", 1, 2, 0), vpRecord(tag+"b.", 1, 70000, 1), vpRecord(tag+"c.", 1, 1, 0)}
	case 0:
		return []*Fastq{vpRecord(tag+"a.", 1, 2, 0)}
	case 1:
		return []*Fastq{vpRecord(tag+"a.", 1, 2, 0), vpRecord(tag+"b.", 0, 1, 0)}
	case 2:
		return []*Fastq{vpRecord(tag+"a.", 2, 0, 0)}
	}
	return []*Fastq{vpRecord(tag+"a.", 1, 1, 0), vpRecord(tag+"b.", 1, 0, 0), vpRecord(tag+"c.", 0, 2, 0)}
}

func vpSample(tag string, shape int) []byte {
	var w vpBuf
	for _, f := range vpSampleRecs(tag, shape) {
		f.Write(&w)
	}
	return w.b
}

func vpWriteSample(tag string, shape int, w io.Writer) (error, int) {
	total := 0
	for _, f := range vpSampleRecs(tag, shape) {
		txt, _ := f.MarshalText()
		total += len(txt)
		if err := f.Write(w); err != nil {
			return err, total
		}
	}
	return nil, total
}

func vpTemplate(k int) []byte {
	// four lines of 0..2 symbolic bytes; k selects which line is longer
	var out []byte
	for l := 0; l < 4; l++ {
		n := 1
		if l == k {
			n = 2
		}
		out = append(out, vpBytes("l"+vpDigit(l), n)...)
		out = append(out, '\n')
	}
	return out
}

func vpFixedPoint(rec any) (bool, bool) {
	f := rec.(*Fastq)
	for _, fld := range [][]byte{f.Name, f.Sequence, f.Quals} {
		for _, c := range fld {
			if c == '\n' || c == '\r' {
				return false, false
			}
		}
	}
	var w vpBuf
	if f.Write(&w) != nil {
		return true, false
	}
	got := vpCollect(vpOneShot(w.b), 3)
	return true, len(got) == 1 && !got[0].err && string(got[0].name) == string(f.Name) && string(got[0].seq) == string(f.Sequence) && string(got[0].qual) == string(f.Quals)
}

func vpOneRecord(i, extra int) []byte {
	out := []byte{'@'}
	for k := 0; k <= extra; k++ {
		out = append(out, 'n')
	}
	out = append(out, '\n')
	for j := 0; j < 8; j++ {
		out = append(out, "ACGT"[(i+j*j)%4])
	}
	out = append(out, "\n+\n"...)
	for j := 0; j < 8; j++ {
		out = append(out, byte('!'+(i*3+j)%40))
	}
	return append(out, '\n')
}

func vpKeyOf(rec any) []byte { return vpKey(rec.(*Fastq)) }

func vpBlankLinesOK() bool { return false }
