package fastq

import "bytes"

type vpRec struct {
	name, seq, qual []byte
	err             bool
}

func vpCollect(r *vpReader, cap int) []vpRec {
	var out []vpRec
	for fq, err := range Reader(r) {
		if err != nil {
			out = append(out, vpRec{err: true})
		} else {
			out = append(out, vpRec{name: fq.Name, seq: fq.Sequence, qual: fq.Quals})
		}
		if len(out) >= cap {
			break
		}
	}
	return out
}

func vpSameRecs(a, b []vpRec) bool {
	if len(a) != len(b) {
		return false
	}
	ok := true
	for i := range a {
		ok = ok && a[i].err == b[i].err && bytes.Equal(a[i].name, b[i].name) && bytes.Equal(a[i].seq, b[i].seq) && bytes.Equal(a[i].qual, b[i].qual)
	}
	return ok
}

func vpField(name string, n, sparse int) []byte {
	if sparse == 0 {
		b := vpBytes(name, n)
		for _, c := range b {
			vpAssume(c != '\n' && c != '\r')
		}
		return b
	}
	b := make([]byte, n)
	for i := range b {
		b[i] = "ACGT"[i&3]
		if i < 2 || i >= n-2 || i%4096 >= 4094 || i%4096 < 2 || i == 65535 || i == 65536 {
			c := vpByte(name + "[" + vpNum(i) + "]")
			vpAssume(c != '\n' && c != '\r')
			b[i] = c
		}
	}
	return b
}

func vpRecord(tag string, nameLen, readLen, sparse int) *Fastq {
	nameSparse := 0
	if nameLen >= 1000 {
		nameSparse = 1 // a name longer than the Scanner's initial buffer
	}
	return &Fastq{Name: vpField(tag+"name", nameLen, nameSparse), Sequence: vpField(tag+"seq", readLen, sparse), Quals: vpField(tag+"qual", readLen, sparse)}
}

// VP_C02_RoundTrip: four-line layout, MarshalText == Write, exact read-back,
// for every read length of the case list (also beyond 64 KiB).
func VP_C02_RoundTrip() {
	nrec := vpCase("records")
	var w vpBuf
	var want, given []vpRec
	for r := 0; r < nrec; r++ {
		f := vpRecord("r"+vpDigit(r)+".", vpCase("nameLen"), vpCase("readLen"+vpDigit(r)), vpCase("sparse"))
		if vpCaseOr("shared", 0) == 1 {
			// the three fields cut from one buffer
			c := vpCarve(f.Name, f.Sequence, f.Quals)
			f.Name, f.Sequence, f.Quals = c[0], c[1], c[2]
		}
		given = append(given, vpRec{name: append([]byte(nil), f.Name...), seq: append([]byte(nil), f.Sequence...), qual: append([]byte(nil), f.Quals...)})
		before := len(w.b)
		vpAssert(f.Write(&w) == nil, "Write succeeds")
		txt, err := f.MarshalText()
		out := w.b[before:]
		vpAssert(err == nil && bytes.Equal(txt, out), "MarshalText and Write produce identical bytes")
		(&Fastq{Name: []byte("zz"), Sequence: []byte("TTTT"), Quals: []byte("!!!!")}).MarshalText()
		vpAssert(bytes.Equal(txt, out), "bytes returned by MarshalText are not disturbed by a later MarshalText call")
		var exp []byte
		exp = append(exp, '@')
		exp = append(exp, f.Name...)
		exp = append(exp, '\n')
		exp = append(exp, f.Sequence...)
		exp = append(exp, "\n+\n"...)
		exp = append(exp, f.Quals...)
		exp = append(exp, '\n')
		vpAssert(bytes.Equal(out, exp), "exactly four lines: @name, sequence, +, qualities")
		want = append(want, vpRec{name: f.Name, seq: f.Sequence, qual: f.Quals})
	}
	got := vpCollect(vpOneShot(w.b), nrec+3)
	vpAssert(vpSameRecs(given, want), "writing does not alter the records")
	vpAssert(vpSameRecs(got, given), "Reader yields exactly the written records in order")
	vpObserveInt("bytes", len(w.b))
	vpReach("end")
}

// VP_C02_Corrupt: a valid file of three small records whose record number
// `which` is structurally corrupted in the way `kind`: the preceding records
// are delivered intact, then an error, never a fabricated record.
func VP_C02_Corrupt() {
	which, kind := vpCase("which"), vpCase("kind")
	var data []byte
	var want []vpRec
	for r := 0; r < 3; r++ {
		f := vpRecord("r"+vpDigit(r)+".", 1, vpCaseOr("readLen", 2), 0)
		var w vpBuf
		f.Write(&w)
		txt := w.b
		if r == which {
			// line boundaries of this record
			l1 := 2 + len(f.Name)        // after "@name\n"
			l2 := l1 + len(f.Sequence) + 1 // after "seq\n"
			l3 := l2 + 2                  // after "+\n"
			switch kind {
			case 0: // first byte of the name line is not '@'
				c := vpByte("bad")
				vpAssume(c != '@' && c != '\n' && c != '\r')
				txt = append([]byte{c}, txt[1:]...)
			case 1: // first byte of line 3 is not '+'
				c := vpByte("bad")
				vpAssume(c != '+' && c != '\n' && c != '\r')
				t2 := append([]byte(nil), txt...)
				t2[l2] = c
				txt = t2
			case 2: // qualities one byte longer
				c := vpByte("bad")
				vpAssume(c != '\n' && c != '\r')
				t2 := append([]byte(nil), txt[:len(txt)-1]...)
				txt = append(append(t2, c), '\n')
			case 3: // qualities one byte shorter
				txt = append(append([]byte(nil), txt[:len(txt)-2]...), '\n')
			case 4: // cut before line 2, keeping the newline
				txt = txt[:l1]
			case 5: // cut before line 3
				txt = txt[:l2]
			case 6: // cut before line 4
				txt = txt[:l3]
			case 7: // cut inside the file without a trailing newline (after '+')
				txt = txt[:l3-1]
			case 8: // empty line instead of the name line
				txt = append([]byte{'\n'}, txt...)
			case 9: // an empty line where the '+' line should be
				t2 := append([]byte(nil), txt[:l2]...)
				txt = append(t2, txt[l2+1:]...)
			case 10: // the '+' line is missing altogether (qualities not starting with '+')
				vpAssume(len(f.Quals) == 0 || f.Quals[0] != '+')
				t2 := append([]byte(nil), txt[:l2]...)
				txt = append(t2, txt[l3:]...)
			}
		}
		data = append(data, txt...)
		if r < which {
			want = append(want, vpRec{name: f.Name, seq: f.Sequence, qual: f.Quals})
		}
		if r == which && kind >= 4 && kind <= 7 {
			break // the file ends at the cut
		}
	}
	rd := vpOneShot(data)
	if vpCaseOr("errKind", 0) == 1 && kind >= 4 && kind <= 7 {
		// the stream breaks off at the cut with an error whose chain contains
		// io.EOF (not io.EOF itself)
		rd.failAt = len(data)
		rd.failForever = true
		rd.ferr = vpErrReadWrapsEOF
	}
	got := vpCollect(rd, 8)
	vpAssert(len(got) > len(want), "the corruption is reported")
	if len(got) > len(want) {
		vpAssert(vpSameRecs(got[:len(want)], want), "all preceding records are delivered intact")
		vpAssert(got[len(want)].err, "the corrupted record yields an error, never a fabricated record")
		vpAssert(len(got) == len(want)+1, "the error ends the iteration")
	}
	vpReach("end")
}

// VP_C02_Many: a stream of `count` short records (far more text than any
// buffer, block or slab of 64 KiB holds), every record kept by the consumer
// until the end of the stream: records handed out earlier are not disturbed by
// later ones. Contents are concrete and pairwise different except for three
// symbolic bytes (first record, one in the middle, last record).
func VP_C02_Many() {
	count := vpCase("count")
	var w vpBuf
	var given []vpRec
	for r := 0; r < count; r++ {
		n := 30 + (r*7)%41
		f := &Fastq{Name: []byte("read" + vpNum(r)), Sequence: make([]byte, n), Quals: make([]byte, n)}
		for i := 0; i < n; i++ {
			f.Sequence[i] = "ACGT"[(r+i*i)%4]
			f.Quals[i] = byte('!' + (r*3+i)%60)
		}
		if r == 0 || r == count/2 || r == count-1 {
			c := vpByte("b" + vpNum(r))
			vpAssume(c != '\n' && c != '\r')
			f.Sequence[n/2] = c
		}
		given = append(given, vpRec{name: append([]byte(nil), f.Name...), seq: append([]byte(nil), f.Sequence...), qual: append([]byte(nil), f.Quals...)})
		vpAssert(f.Write(&w) == nil, "Write succeeds")
	}
	got := vpCollect(vpOneShot(w.b), count+3)
	vpAssert(vpSameRecs(got, given), "Reader yields exactly the written records in order, each still intact at the end of the stream")
	vpObserveInt("bytes", len(w.b))
	vpReach("end")
}
