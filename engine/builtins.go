package main

import (
	"math"
	"fmt"
	"go/types"
	"strings"

	"golang.org/x/tools/go/ssa"
)

// ---------------------------------------------------------------------------
// runtime size classes (runtime/sizeclasses.go, go1.23) for append growth

var sizeClasses = []int{0, 8, 16, 24, 32, 48, 64, 80, 96, 112, 128, 144, 160, 176, 192, 208, 224, 240, 256, 288, 320, 352, 384, 416, 448, 480, 512, 576, 640, 704, 768, 896, 1024, 1152, 1280, 1408, 1536, 1792, 2048, 2304, 2688, 3072, 3200, 3456, 4096, 4864, 5376, 6144, 6528, 6784, 6912, 8192, 9472, 9728, 10240, 10880, 12288, 13568, 14336, 16384, 18432, 19072, 20480, 21760, 24576, 27264, 28672, 32768}

func roundupsize(size int) int {
	if size <= 32768 {
		for _, c := range sizeClasses {
			if c >= size {
				return c
			}
		}
	}
	const page = 8192
	return (size + page - 1) / page * page
}

func nextslicecap(newLen, oldCap int) int {
	newcap := oldCap
	doublecap := newcap + newcap
	if newLen > doublecap {
		return newLen
	}
	const threshold = 256
	if oldCap < threshold {
		return doublecap
	}
	for {
		newcap += (newcap + 3*threshold) >> 2
		if uint(newcap) >= uint(newLen) {
			break
		}
	}
	if newcap <= 0 {
		return newLen
	}
	return newcap
}

func (e *Engine) growCap(et types.Type, oldCap, newLen int) int {
	sz := int(e.sizes.Sizeof(et))
	nc := nextslicecap(newLen, oldCap)
	if sz == 0 {
		return nc
	}
	mem := roundupsize(nc * sz)
	return mem / sz
}

// elems returns the element values of a slice or string operand.
func (e *Engine) elems(st *State, v Value) []Value {
	switch x := v.(type) {
	case SliceV:
		if x.Len == 0 {
			return nil
		}
		arr := st.sliceArrR(x)
		out := make([]Value, x.Len)
		copy(out, arr.E[x.Off:x.Off+x.Len])
		return out
	case StrV:
		out := make([]Value, len(x.B))
		for i, b := range x.B {
			out[i] = b
		}
		return out
	}
	panic(unsupported(fmt.Sprintf("elements of %T", v)))
}

func (e *Engine) appendVals(st *State, s SliceV, et types.Type, add []Value) SliceV {
	if len(add) == 0 {
		return s
	}
	n := s.Len + len(add)
	if s.Obj != 0 && n <= s.Cap {
		arr := st.sliceArrW(s)
		for i, v := range add {
			arr.E[s.Off+s.Len+i] = copyVal(v)
		}
		return SliceV{Obj: s.Obj, Path: s.Path, Off: s.Off, Len: n, Cap: s.Cap}
	}
	nc := e.growCap(et, s.Cap, n)
	ns := e.newSlice(st, et, n, nc)
	arr := st.sliceArrW(ns)
	if s.Len > 0 {
		old := st.sliceArrR(s)
		for i := 0; i < s.Len; i++ {
			arr.E[i] = copyVal(old.E[s.Off+i])
		}
	}
	for i, v := range add {
		arr.E[s.Len+i] = copyVal(v)
	}
	return ns
}

func (e *Engine) builtin(st *State, fr *Frame, b *ssa.Builtin, call *ssa.Call, args []Value) Value {
	switch b.Name() {
	case "append":
		s := args[0].(SliceV)
		var et types.Type
		if call != nil {
			et = under(call.Type()).(*types.Slice).Elem()
		} else {
			panic(unsupported("deferred append"))
		}
		return e.appendVals(st, s, et, e.elems(st, args[1]))
	case "copy":
		dst := args[0].(SliceV)
		src := e.elems(st, args[1])
		n := len(src)
		if dst.Len < n {
			n = dst.Len
		}
		if n > 0 {
			arr := st.sliceArrW(dst)
			for i := 0; i < n; i++ {
				arr.E[dst.Off+i] = copyVal(src[i])
			}
		}
		return BVC(64, uint64(n))
	case "len":
		switch x := args[0].(type) {
		case SliceV:
			return BVC(64, uint64(x.Len))
		case StrV:
			return BVC(64, uint64(len(x.B)))
		case MapV:
			if x.Obj == 0 {
				return BVC(64, 0)
			}
			return BVC(64, uint64(len(st.obj(x.Obj).M.Keys)))
		case *ArrayV:
			return BVC(64, uint64(len(x.E)))
		case PtrV:
			// pointer to array
			if call != nil {
				if a, ok := under(call.Call.Args[0].Type().(*types.Pointer).Elem()).(*types.Array); ok {
					return BVC(64, uint64(a.Len()))
				}
			}
		}
		panic(unsupported(fmt.Sprintf("len of %T", args[0])))
	case "cap":
		switch x := args[0].(type) {
		case SliceV:
			return BVC(64, uint64(x.Cap))
		case *ArrayV:
			return BVC(64, uint64(len(x.E)))
		}
		panic(unsupported(fmt.Sprintf("cap of %T", args[0])))
	case "delete":
		e.mapDelete(st, args[0].(MapV), args[1])
		return nil
	case "min", "max":
		isMin := b.Name() == "min"
		r := args[0]
		var typ types.Type
		if call != nil {
			typ = call.Type()
		}
		for _, a := range args[1:] {
			switch x := r.(type) {
			case *Term:
				_, signed, _ := intInfo(typ)
				y := a.(*Term)
				var lt *Term
				if signed {
					lt = SLt(y, x)
				} else {
					lt = ULt(y, x)
				}
				if isMin {
					r = Ite(lt, y, x)
				} else {
					r = Ite(lt, x, y)
				}
			case FloatV:
				y := a.(FloatV)
				if x.FP != nil || y.FP != nil {
					// Go's min/max on float64: NaN if either is NaN, -0 < +0
					p, q := x.asFP(), y.asFP()
					nan := Or(FIsNaN(p), FIsNaN(q))
					var pick *Term
					if isMin {
						pick = Ite(FLt(p, q), p, Ite(FLt(q, p), q, Ite(FIsNeg(p), p, q)))
					} else {
						pick = Ite(FLt(p, q), q, Ite(FLt(q, p), p, Ite(FIsNeg(p), q, p)))
					}
					r = FloatV{FP: Ite(nan, FPC(math.NaN()), pick)}
				} else if x.Sym == nil && y.Sym == nil {
					if x.F != x.F || y.F != y.F {
						panic(unsupported("min/max with NaN"))
					}
					if isMin == (y.F < x.F) {
						r = y
					}
				} else {
					lt := e.floatOp(tokenLSS, y, x).(*Term)
					var m Value
					var ok bool
					if isMin {
						m, ok = mergeVal(lt, y, x)
					} else {
						m, ok = mergeVal(lt, x, y)
					}
					if !ok {
						panic(unsupported("min/max of floats"))
					}
					r = m
				}
			default:
				panic(unsupported(fmt.Sprintf("min/max of %T", r)))
			}
		}
		return r
	case "recover":
		// recover() is effective only when called directly by a deferred
		// function during panicking
		if st.Panicking != nil && fr.IsDefer && len(st.Frames) >= 2 {
			v := st.Panicking.Val
			st.Panicking = nil
			st.Frames[len(st.Frames)-2].Recovered = true
			return v
		}
		return IfaceV{}
	case "print", "println":
		return nil
	case "clear":
		switch x := args[0].(type) {
		case MapV:
			if x.Obj != 0 {
				o := st.wobj(x.Obj)
				o.M.Keys, o.M.Vals, o.M.Index, o.M.NSym = nil, nil, map[string]int{}, 0
			}
			return nil
		}
		if sl, ok := args[0].(SliceV); ok {
			if sl.Len > 0 {
				var et types.Type
				if call != nil {
					et = under(call.Call.Args[0].Type()).(*types.Slice).Elem()
				} else {
					panic(unsupported("deferred clear"))
				}
				arr := st.sliceArrW(sl)
				for i := 0; i < sl.Len; i++ {
					arr.E[sl.Off+i] = zeroValue(et)
				}
			}
			return nil
		}
		panic(unsupported("clear of this type"))
	case "String":
		// unsafe.String(ptr, len)
		p := args[0].(PtrV)
		n := argInt(args[1])
		if n == 0 {
			return StrV{}
		}
		if p.Obj == 0 || len(p.Path) == 0 || p.Path[len(p.Path)-1].Sym != nil {
			panic(unsupported("unsafe.String of this pointer"))
		}
		last := p.Path[len(p.Path)-1].I
		arr := loadArr(st.obj(p.Obj).V, p.Path[:len(p.Path)-1])
		if last+n > len(arr.E) {
			panic(unsupported("unsafe.String beyond the object"))
		}
		b := make([]*Term, n)
		for i := 0; i < n; i++ {
			b[i] = arr.E[last+i].(*Term)
		}
		return StrV{b}
	case "SliceData":
		s := args[0].(SliceV)
		if s.Obj == 0 || s.Cap == 0 {
			return PtrV{}
		}
		return PtrV{Obj: s.Obj, Path: extPath(s.Path, PathElem{I: s.Off})}
	case "StringData":
		s := args[0].(StrV)
		if len(s.B) == 0 {
			return PtrV{}
		}
		sl := e.newSlice(st, types.Typ[types.Uint8], len(s.B), len(s.B))
		arr := st.sliceArrW(sl)
		for i, t := range s.B {
			arr.E[i] = t
		}
		return PtrV{Obj: sl.Obj, Path: []PathElem{{I: 0}}}
	case "ssa:wrapnilchk":
		p := args[0].(PtrV)
		if p.Obj == 0 {
			e.goPanic(st, "runtime error: value method called using nil pointer")
		}
		return p
	}
	panic(unsupported("builtin " + b.Name()))
}

// ---------------------------------------------------------------------------
// maps

func keyString(v Value) (string, bool) {
	var sb strings.Builder
	if !writeKey(&sb, v) {
		return "", false
	}
	return sb.String(), true
}

func writeKey(sb *strings.Builder, v Value) bool {
	switch x := v.(type) {
	case *Term:
		if !x.IsConst() {
			return false
		}
		fmt.Fprintf(sb, "%d:%d;", x.S.W, x.U)
	case StrV:
		s, ok := x.Concrete()
		if !ok {
			return false
		}
		fmt.Fprintf(sb, "s%d:%s;", len(s), s)
	case FloatV:
		if x.Sym != nil || x.FP != nil {
			return false
		}
		fmt.Fprintf(sb, "f%v;", x.F)
	case *ArrayV:
		sb.WriteByte('[')
		for _, el := range x.E {
			if !writeKey(sb, el) {
				return false
			}
		}
		sb.WriteByte(']')
	case *StructV:
		sb.WriteByte('{')
		for _, el := range x.F {
			if !writeKey(sb, el) {
				return false
			}
		}
		sb.WriteByte('}')
	case PtrV:
		fmt.Fprintf(sb, "p%d", x.Obj)
		for _, pe := range x.Path {
			if pe.Sym != nil {
				return false
			}
			fmt.Fprintf(sb, ".%d", pe.I)
		}
		sb.WriteByte(';')
	case IfaceV:
		if x.T == nil {
			sb.WriteString("nil;")
			return true
		}
		sb.WriteString(x.T.String())
		sb.WriteByte('=')
		return writeKey(sb, x.V)
	default:
		return false
	}
	return true
}

func keyDomain(t types.Type) int {
	switch x := under(t).(type) {
	case *types.Basic:
		if x.Kind() == types.Uint8 || x.Kind() == types.Int8 {
			return 256
		}
		if x.Kind() == types.Bool {
			return 2
		}
	case *types.Array:
		d := keyDomain(x.Elem())
		if d == 0 || x.Len() > 2 {
			return 0
		}
		r := 1
		for i := int64(0); i < x.Len(); i++ {
			r *= d
		}
		return r
	}
	return 0
}

func scalarType(t types.Type) bool {
	b, ok := under(t).(*types.Basic)
	return ok && b.Info()&types.IsString == 0
}

func (e *Engine) mapLookup(st *State, m MapV, key Value, mt *types.Map) (Value, *Term) {
	zero := zeroValue(mt.Elem())
	if m.Obj == 0 {
		return zero, FalseT
	}
	md := st.obj(m.Obj).M
	if len(md.Keys) == 0 {
		return zero, FalseT
	}
	if ks, conc := keyString(key); conc && md.NSym == 0 {
		if i, ok := md.Index[ks]; ok {
			return copyVal(md.Vals[i]), TrueT
		}
		return zero, FalseT
	}
	if scalarType(mt.Elem()) {
		// data-flow encoding: group entries by value
		type grp struct {
			v     Value
			conds []*Term
		}
		var groups []*grp
		find := func(v Value) *grp {
			for _, g := range groups {
				if valIdentical(g.v, v) {
					return g
				}
			}
			g := &grp{v: v}
			groups = append(groups, g)
			return g
		}
		byTerm := map[int]*grp{}
		nTrue := -1
		for i, k := range md.Keys {
			c := e.eqVal(key, k)
			if c.IsFalse() {
				continue
			}
			var g *grp
			if t, ok := md.Vals[i].(*Term); ok {
				g = byTerm[t.ID]
				if g == nil {
					g = find(md.Vals[i])
					byTerm[t.ID] = g
				}
			} else {
				g = find(md.Vals[i])
			}
			if c.IsTrue() {
				nTrue = i
				break
			}
			g.conds = append(g.conds, c)
		}
		if nTrue >= 0 {
			return copyVal(md.Vals[nTrue]), TrueT
		}
		total := md.NSym == 0 && keyDomain(mt.Key()) == len(md.Keys)
		res := zero
		var ok *Term
		start := 0
		if total {
			// the largest group is the default, and presence is certain
			big := 0
			for i, g := range groups {
				if len(g.conds) > len(groups[big].conds) {
					big = i
				}
			}
			groups[0], groups[big] = groups[big], groups[0]
			res = groups[0].v
			start = 1
			ok = TrueT
		} else {
			var all []*Term
			for _, g := range groups {
				all = append(all, g.conds...)
			}
			ok = Or(all...)
		}
		for _, g := range groups[start:] {
			if len(g.conds) == 0 {
				continue
			}
			r, mok := mergeVal(Or(g.conds...), g.v, res)
			if !mok {
				panic(unsupported("map lookup merge"))
			}
			res = r
		}
		return res, ok
	}
	// fork on which entry matches
	for i, k := range md.Keys {
		if e.decide(st, e.eqVal(key, k)) {
			return copyVal(md.Vals[i]), TrueT
		}
	}
	return zero, FalseT
}

func (e *Engine) execMapUpdate(st *State, fr *Frame, x *ssa.MapUpdate) {
	m := e.val(st, fr, x.Map).(MapV)
	key := e.val(st, fr, x.Key)
	val := e.val(st, fr, x.Value)
	if m.Obj == 0 {
		e.goPanic(st, "assignment to entry in nil map")
	}
	md := st.obj(m.Obj).M
	ks, conc := keyString(key)
	if conc && md.NSym == 0 {
		w := st.wobj(m.Obj).M
		if i, ok := w.Index[ks]; ok {
			w.Vals[i] = copyVal(val)
			return
		}
		w.Index[ks] = len(w.Keys)
		w.Keys = append(w.Keys, copyVal(key))
		w.Vals = append(w.Vals, copyVal(val))
		return
	}
	for i, k := range md.Keys {
		if e.decide(st, e.eqVal(key, k)) {
			st.wobj(m.Obj).M.Vals[i] = copyVal(val)
			return
		}
	}
	w := st.wobj(m.Obj).M
	if conc {
		w.Index[ks] = len(w.Keys)
	} else {
		w.NSym++
	}
	w.Keys = append(w.Keys, copyVal(key))
	w.Vals = append(w.Vals, copyVal(val))
}

func (e *Engine) mapDelete(st *State, m MapV, key Value) {
	if m.Obj == 0 {
		return
	}
	md := st.obj(m.Obj).M
	found := -1
	ks, conc := keyString(key)
	if conc && md.NSym == 0 {
		if i, ok := md.Index[ks]; ok {
			found = i
		}
	} else {
		for i, k := range md.Keys {
			if e.decide(st, e.eqVal(key, k)) {
				found = i
				break
			}
		}
	}
	if found < 0 {
		return
	}
	w := st.wobj(m.Obj).M
	if _, c := keyString(w.Keys[found]); !c {
		w.NSym--
	}
	w.Keys = append(w.Keys[:found:found], w.Keys[found+1:]...)
	w.Vals = append(w.Vals[:found:found], w.Vals[found+1:]...)
	w.Index = map[string]int{}
	for i, k := range w.Keys {
		if s, c := keyString(k); c {
			w.Index[s] = i
		}
	}
}
