package main

import (
	"fmt"
	"go/types"

	"golang.org/x/tools/go/ssa"
)

type MapData struct {
	Keys  []Value
	Vals  []Value
	Index map[string]int // canonical concrete key -> entry (entries with concrete keys only)
	NSym  int            // number of entries with non-concrete keys
	KeyT  types.Type
	ValT  types.Type
}

type IterData struct {
	IsMap bool
	Keys  []Value // snapshot of keys in iteration order (maps)
	Vals  []Value
	Str   StrV
	Pos   int
	Rev   bool // map order mode 3: this range statement walks the entries backwards
}

type ObjData struct {
	Epoch int
	V     Value
	M     *MapData
	It    *IterData
	T     types.Type
}

type DeferRec struct {
	Fn   Value // FuncV
	Args []Value
}

type Frame struct {
	Fn      *ssa.Function
	Info    *fnInfo
	Block   *ssa.BasicBlock
	Prev    *ssa.BasicBlock
	IP      int
	Env     []Value
	Defers  []DeferRec
	RetReg  int  // register of the caller receiving the result (-1: none)
	IsDefer bool // frame runs a deferred call
	Catch   bool // vpPanics marker: a panic unwinding to here is caught
	// recovery
	Recovered bool
}

type PanicInfo struct {
	Val Value
	Msg string
	// Hold > 0: a deferred call invoked by the unwinding is running in the
	// frames from depth Hold up; unwinding resumes when it has returned
	Hold int
}

type Spec struct {
	Depth  int
	J      *ssa.BasicBlock
	Outer  *Spec
	Budget int
}

type ObsEntry struct {
	Name string
	Kind string // int, bytes, str, bool
	V    Value
}

type Violation struct {
	Kind  string // "assert" | "panic" | "termination"
	Label string
	Model Model
	Obs   []string
	Case  map[string]int
}

type State struct {
	Frames     []*Frame
	Heap       []*ObjData
	Epoch      int
	PC         []*Term
	Facts      map[int]bool
	factsOwned bool
	Model      Model
	Globals    map[*ssa.Global]int
	globOwned  bool
	Panicking  *PanicInfo
	Log        []ObsEntry
	Reached    map[string]bool
	NInstr     int
	Spec       *Spec
	Done       bool
	EndKind    string // "ok", "dead", "panic", "unsupported", "budget"
	EndMsg     string
	Choices    []string
	MapOrder   int // 0: insertion, 1: fwd/rev single choice, 2: all permutations, 3: successive range statements alternate between forwards and backwards
	OrderPick  int // -1 undecided, 0 forward, 1 reverse (mode 1)
	Counters   map[string]int
	Depth      int // number of forks on this path
	Assumed    []*Term // harness assumptions and assertions proved from them alone (no branch decisions)
	NBranch    int     // number of branch decisions / concretisations in the path condition
	WriteMark  int // objects with a smaller id existed before vpWriteMark()
	OldWrites  int // writes to such objects since
	PeakOn     bool // between vpPeakMark() and vpPeakDepth(): the call-depth limit is lifted and the deepest stack is recorded
	PeakFrames int
	Ack        map[string][]ackApp // uninterpreted-function applications made on this path
	Lemmas     map[int]bool // proved assertions in PC (implied by the rest; skipped in feasibility queries)
	lemOwned   bool
}

var epochSeq int

func newEpoch() int { epochSeq++; return epochSeq }

func NewState() *State {
	return &State{
		Heap:       []*ObjData{nil},
		Epoch:      newEpoch(),
		Facts:      map[int]bool{},
		factsOwned: true,
		Globals:    map[*ssa.Global]int{},
		globOwned:  true,
		Reached:    map[string]bool{},
		OrderPick:  -1,
		MapOrder:   1,
		Counters:   map[string]int{},
	}
}

func (st *State) Clone() *State {
	c := *st
	c.Frames = make([]*Frame, len(st.Frames))
	for i, f := range st.Frames {
		nf := *f
		nf.Env = make([]Value, len(f.Env))
		copy(nf.Env, f.Env)
		if len(f.Defers) > 0 {
			nf.Defers = append([]DeferRec(nil), f.Defers...)
		} else {
			nf.Defers = nil
		}
		c.Frames[i] = &nf
	}
	c.Heap = make([]*ObjData, len(st.Heap), len(st.Heap)+16)
	copy(c.Heap, st.Heap)
	c.Epoch = newEpoch()
	st.Epoch = newEpoch()
	c.PC = st.PC[:len(st.PC):len(st.PC)]
	st.PC = st.PC[:len(st.PC):len(st.PC)]
	st.factsOwned, c.factsOwned = false, false
	st.lemOwned, c.lemOwned = false, false
	st.globOwned, c.globOwned = false, false
	c.Log = st.Log[:len(st.Log):len(st.Log)]
	st.Log = st.Log[:len(st.Log):len(st.Log)]
	c.Assumed = st.Assumed[:len(st.Assumed):len(st.Assumed)]
	st.Assumed = st.Assumed[:len(st.Assumed):len(st.Assumed)]
	c.Choices = st.Choices[:len(st.Choices):len(st.Choices)]
	st.Choices = st.Choices[:len(st.Choices):len(st.Choices)]
	if st.Ack != nil {
		c.Ack = map[string][]ackApp{}
		for k, v := range st.Ack {
			c.Ack[k] = v[:len(v):len(v)]
		}
	}
	c.Reached = map[string]bool{}
	for k, v := range st.Reached {
		c.Reached[k] = v
	}
	c.Counters = map[string]int{}
	for k, v := range st.Counters {
		c.Counters[k] = v
	}
	if st.Panicking != nil {
		p := *st.Panicking
		c.Panicking = &p
	}
	return &c
}

func (st *State) ownFacts() {
	if !st.factsOwned {
		n := make(map[int]bool, len(st.Facts)+8)
		for k, v := range st.Facts {
			n[k] = v
		}
		st.Facts = n
		st.factsOwned = true
	}
}

func (st *State) addFact(c *Term, val bool) {
	if c.IsConst() {
		return
	}
	if c.Op == ONot {
		st.addFact(c.Args[0], !val)
		return
	}
	st.ownFacts()
	st.Facts[c.ID] = val
	if val && c.Op == OAnd {
		for _, a := range c.Args {
			st.addFact(a, true)
		}
	}
	if !val && c.Op == OOr {
		for _, a := range c.Args {
			st.addFact(a, false)
		}
	}
}

func (st *State) lookupFact(c *Term) (bool, bool) {
	if c.Op == ONot {
		v, ok := st.lookupFact(c.Args[0])
		return !v, ok
	}
	v, ok := st.Facts[c.ID]
	if ok {
		return v, true
	}
	// a conjunction all of whose members are known true; a disjunction with a
	// member known true
	switch c.Op {
	case OAnd:
		all := true
		for _, a := range c.Args {
			v, ok := st.lookupFact(a)
			if ok && !v {
				return false, true
			}
			if !ok {
				all = false
			}
		}
		if all {
			return true, true
		}
	case OOr:
		all := true
		for _, a := range c.Args {
			v, ok := st.lookupFact(a)
			if ok && v {
				return true, true
			}
			if !ok {
				all = false
			}
		}
		if all {
			return false, true
		}
	}
	return false, false
}

// Assume adds c to the path condition.
func (st *State) Assume(c *Term) {
	if c.IsTrue() {
		return
	}
	if c.Op == OAnd {
		for _, a := range c.Args {
			st.Assume(a)
		}
		return
	}
	if v, ok := st.lookupFact(c); ok && v {
		return
	}
	st.PC = append(st.PC, c)
	st.addFact(c, true)
	if st.Model != nil {
		ec := &evalCtx{m: st.Model, memo: map[int]uint64{}}
		if ec.eval(c) == 0 || ec.miss {
			st.Model = nil
		}
	}
}

// ---------------------------------------------------------------------------
// heap

func (st *State) NewObj(v Value, t types.Type) int {
	st.Heap = append(st.Heap, &ObjData{Epoch: st.Epoch, V: v, T: t})
	return len(st.Heap) - 1
}

func (st *State) obj(id int) *ObjData {
	if id <= 0 || id >= len(st.Heap) {
		panic(fmt.Sprintf("bad object id %d", id))
	}
	return st.Heap[id]
}

// wobj returns the object for writing (copy-on-write per epoch).
func (st *State) wobj(id int) *ObjData {
	o := st.obj(id)
	if id < st.WriteMark {
		st.OldWrites++
	}
	if o.Epoch == st.Epoch {
		return o
	}
	n := &ObjData{Epoch: st.Epoch, T: o.T}
	if o.V != nil {
		n.V = copyVal(o.V)
	}
	if o.M != nil {
		m := &MapData{KeyT: o.M.KeyT, ValT: o.M.ValT, NSym: o.M.NSym}
		m.Keys = append([]Value(nil), o.M.Keys...)
		m.Vals = append([]Value(nil), o.M.Vals...)
		m.Index = make(map[string]int, len(o.M.Index))
		for k, v := range o.M.Index {
			m.Index[k] = v
		}
		n.M = m
	}
	if o.It != nil {
		it := *o.It
		n.It = &it
	}
	st.Heap[id] = n
	return n
}

func (st *State) top() *Frame { return st.Frames[len(st.Frames)-1] }

func (st *State) end(kind, msg string) {
	st.Done = true
	st.EndKind = kind
	st.EndMsg = msg
}

func (st *State) addLemma(c *Term) {
	if !st.lemOwned {
		n := make(map[int]bool, len(st.Lemmas)+4)
		for k, v := range st.Lemmas {
			n[k] = v
		}
		st.Lemmas = n
		st.lemOwned = true
	}
	if c.Op == OAnd {
		for _, a := range c.Args {
			st.Lemmas[a.ID] = true
		}
	}
	st.Lemmas[c.ID] = true
}

// feasPC is the path condition without the proved assertions (they are
// implied by the remaining conjuncts, so feasibility answers are unchanged).
func (st *State) feasPC() []*Term {
	if len(st.Lemmas) == 0 {
		return st.PC
	}
	out := make([]*Term, 0, len(st.PC))
	for _, c := range st.PC {
		if !st.Lemmas[c.ID] {
			out = append(out, c)
		}
	}
	return out
}
