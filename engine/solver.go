package main

// Solver pipe: one long-lived `z3 -in` process per worker, assertion stack
// kept in sync with the current path condition by push/pop, plus one-shot
// escalation to z3-new / cvc5 for queries the live solver cannot decide.

import (
	"bufio"
	"fmt"
	"io"
	"os"
	"os/exec"
	"path/filepath"
	"strconv"
	"strings"
	"time"
)

var qlog = os.Getenv("VP_QLOG") != ""

type Result int

const (
	Unknown Result = iota
	Sat
	Unsat
)

func (r Result) String() string {
	return [...]string{"unknown", "sat", "unsat"}[r]
}

type SolverStats struct {
	Queries    int
	Conjuncts      int
	ConjunctsTotal int
	Sat        int
	UnsatN     int
	UnknownN   int
	Seconds    float64
	Escalated  int
	EscSeconds float64
	EscBy      map[string]int
	Errors     []string
	Disagree   []string
	CrossCheck int
}

type Solver struct {
	cmd      *exec.Cmd
	in       io.WriteCloser
	out      *bufio.Reader
	kind     string
	conjVars map[int][]int
	NoSlice  bool
	dead     bool
	decls    []string // every declaration/definition, in order (for one-shot scripts)
	declared map[int]bool
	vars     []*Term
	Stats    SolverStats
	timeout  int
	workDir  string
	seed     int
	trace    io.Writer
	sawError bool
	qseq     int
	lastRel  []*Term // the conjuncts the last live query asserted
}

func NewSolver(workDir string, seed int) (*Solver, error) {
	s := &Solver{declared: map[int]bool{}, workDir: workDir, seed: seed, conjVars: map[int][]int{}}
	if traceSMT {
		s.trace = os.Stderr
	}
	s.Stats.EscBy = map[string]int{}
	if err := s.start(); err != nil {
		return nil, err
	}
	return s, nil
}

var liveSolver = "z3-new"

func (s *Solver) start() error {
	s.kind = liveSolver
	if v := os.Getenv("VP_LIVE"); v != "" {
		s.kind = v
	}
	cmd := exec.Command("z3-new", "-in")
	if s.kind == "z3" {
		cmd = exec.Command("z3", "-in")
	} else if s.kind == "cvc5" {
		cmd = exec.Command("cvc5", "--incremental", "--lang", "smt2", "--produce-models", "--tlimit-per=20000")
	} else if s.kind == "z3-new" {
		cmd = exec.Command("z3-new", "-in")
	}
	in, err := cmd.StdinPipe()
	if err != nil {
		return err
	}
	out, err := cmd.StdoutPipe()
	if err != nil {
		return err
	}
	cmd.Stderr = os.Stderr
	if err := cmd.Start(); err != nil {
		return err
	}
	s.cmd, s.in, s.out = cmd, in, bufio.NewReaderSize(out, 1<<16)
	s.timeout = -1
	if s.kind == "cvc5" {
		s.send("(set-logic ALL)")
	} else {
		s.send("(set-option :produce-models true)")
		s.send(fmt.Sprintf("(set-option :random-seed %d)", s.seed))
		s.send(fmt.Sprintf("(set-option :smt.random_seed %d)", s.seed))
	}
	// re-send declarations after a restart
	for _, d := range s.decls {
		s.send(d)
	}
	return nil
}

func (s *Solver) Close() {
	if s.cmd != nil {
		s.in.Close()
		s.cmd.Process.Kill()
		s.cmd.Wait()
		s.cmd = nil
	}
}

func (s *Solver) send(line string) {
	if s.trace != nil {
		fmt.Fprintln(s.trace, line)
	}
	io.WriteString(s.in, line)
	io.WriteString(s.in, "\n")
}

func (s *Solver) readLine() (string, error) {
	l, err := s.out.ReadString('\n')
	return strings.TrimRight(l, "\r\n"), err
}

func smtSym(name string) string { return "|" + name + "|" }

// ref returns the SMT-LIB text referring to t, emitting declarations and
// definitions as needed.
func (s *Solver) ref(t *Term) string {
	switch t.Op {
	case OConst:
		return smtConst(t)
	case OVar:
		if !s.declared[t.ID] {
			s.declared[t.ID] = true
			d := fmt.Sprintf("(declare-const %s %s)", smtSym(t.Name), t.S)
			s.decls = append(s.decls, d)
			s.vars = append(s.vars, t)
			s.send(d)
		}
		return smtSym(t.Name)
	}
	if s.declared[t.ID] {
		return "t" + strconv.Itoa(t.ID)
	}
	body := s.body(t)
	if t.size <= 6 {
		return body
	}
	s.declared[t.ID] = true
	d := fmt.Sprintf("(define-fun t%d () %s %s)", t.ID, t.S, body)
	s.decls = append(s.decls, d)
	s.send(d)
	return "t" + strconv.Itoa(t.ID)
}

func (s *Solver) body(t *Term) string {
	var sb strings.Builder
	sb.WriteByte('(')
	switch t.Op {
	case OExtract:
		fmt.Fprintf(&sb, "(_ extract %d %d)", t.A, t.B)
	case OZExt:
		fmt.Fprintf(&sb, "(_ zero_extend %d)", t.A)
	case OSExt:
		fmt.Fprintf(&sb, "(_ sign_extend %d)", t.A)
	case OBV2Int:
		// signed value of a bit-vector as Int
		x := s.ref(t.Args[0])
		w := t.Args[0].S.W
		return fmt.Sprintf("(ite (bvslt %s %s) (- (bv2nat %s) %s) (bv2nat %s))", x, smtConst(BVC(w, 0)), x, pow2str(w), x)
	case OApp:
		panic("uninterpreted applications are ackermannised by the engine")
	case OFAdd, OFSub, OFMul, OFDiv:
		name := map[Op]string{OFAdd: "fp.add", OFSub: "fp.sub", OFMul: "fp.mul", OFDiv: "fp.div"}[t.Op]
		return fmt.Sprintf("(%s RNE %s %s)", name, s.ref(t.Args[0]), s.ref(t.Args[1]))
	case OFNeg:
		sb.WriteString("fp.neg")
	case OFLt:
		sb.WriteString("fp.lt")
	case OFLe:
		sb.WriteString("fp.leq")
	case OFEq:
		sb.WriteString("fp.eq")
	case OFIsNaN:
		sb.WriteString("fp.isNaN")
	case OFIsNeg:
		sb.WriteString("fp.isNegative")
	case OFRound32:
		return fmt.Sprintf("((_ to_fp 11 53) RNE ((_ to_fp 8 24) RNE %s))", s.ref(t.Args[0]))
	case OFFromBits:
		return fmt.Sprintf("((_ to_fp 11 53) %s)", s.ref(t.Args[0]))
	case OFFromSBV:
		return fmt.Sprintf("((_ to_fp 11 53) RNE %s)", s.ref(t.Args[0]))
	case OFFromInt:
		return fmt.Sprintf("((_ to_fp 11 53) RNE (to_real %s))", s.ref(t.Args[0]))
	default:
		sb.WriteString(opNames[t.Op])
	}
	for _, a := range t.Args {
		sb.WriteByte(' ')
		sb.WriteString(s.ref(a))
	}
	sb.WriteByte(')')
	return sb.String()
}

func pow2str(w int) string {
	if w < 63 {
		return strconv.FormatUint(uint64(1)<<uint(w), 10)
	}
	if w == 64 {
		return "18446744073709551616"
	}
	return "9223372036854775808"
}

// varsOf returns the ids of the free variables of t (cached per term).
func (s *Solver) varsOf(t *Term) []int {
	if v, ok := s.conjVars[t.ID]; ok {
		return v
	}
	seen := map[int]bool{}
	var out []int
	var walk func(x *Term)
	walk = func(x *Term) {
		if seen[x.ID] {
			return
		}
		seen[x.ID] = true
		if x.Op == OVar {
			out = append(out, x.ID)
			return
		}
		for _, a := range x.Args {
			walk(a)
		}
	}
	walk(t)
	s.conjVars[t.ID] = out
	return out
}

// slice returns the conjuncts of pc that (transitively) share variables with
// extra: constraint independence. The dropped conjuncts are over disjoint
// variables and satisfiable on their own (the path condition is satisfiable
// by construction), so they cannot change the answer.
func (s *Solver) slice(pc []*Term, extra *Term) ([]*Term, map[int]bool) {
	if extra == nil || s.NoSlice {
		return pc, nil
	}
	rel := map[int]bool{}
	for _, v := range s.varsOf(extra) {
		rel[v] = true
	}
	sel := make([]bool, len(pc))
	nsel := 0
	for changed := true; changed; {
		changed = false
		for i, c := range pc {
			if sel[i] {
				continue
			}
			vs := s.varsOf(c)
			hit := false
			for _, v := range vs {
				if rel[v] {
					hit = true
					break
				}
			}
			if hit {
				sel[i] = true
				nsel++
				changed = true
				for _, v := range vs {
					rel[v] = true
				}
			}
		}
	}
	out := make([]*Term, 0, nsel)
	for i, c := range pc {
		if sel[i] {
			out = append(out, c)
		}
	}
	return out, rel
}

func (s *Solver) setTimeout(ms int) {
	if s.kind == "cvc5" {
		return
	}
	if ms != s.timeout {
		s.timeout = ms
		s.send(fmt.Sprintf("(set-option :timeout %d)", ms))
	}
}

// Check decides pc ∧ extra. When the answer is sat and wantModel is set a
// model over the variables of the relevant slice is returned (base, if given,
// supplies the values of all other variables: it must satisfy pc).
func (s *Solver) Check(pc []*Term, extra *Term, timeoutMs int, wantModel bool) (Result, Model) {
	return s.CheckBase(pc, extra, timeoutMs, wantModel, nil)
}

func (s *Solver) CheckBase(pc []*Term, extra *Term, timeoutMs int, wantModel bool, base Model) (Result, Model) {
	t0 := time.Now()
	s.Stats.Queries++
	s.sawError = false
	rel, relVars := s.slice(pc, extra)
	if base == nil && extra != nil && len(rel) != len(pc) && wantModel {
		// without a base model the answer model must cover the whole pc
		rel, relVars = pc, nil
	}
	s.lastRel = rel
	s.Stats.Conjuncts += len(rel)
	s.Stats.ConjunctsTotal += len(pc)
	refs := make([]string, 0, len(rel)+1)
	for _, c := range rel {
		refs = append(refs, s.ref(c))
	}
	if extra != nil {
		refs = append(refs, s.ref(extra))
	}
	s.setTimeout(timeoutMs)
	s.send("(push 1)")
	for _, r := range refs {
		s.send("(assert " + r + ")")
	}
	s.send("(check-sat)")
	res := s.readResult()
	var m Model
	if res == Sat && wantModel {
		vars := s.vars
		if relVars != nil {
			vars = vars[:0:0]
			for _, v := range s.vars {
				if relVars[v.ID] {
					vars = append(vars, v)
				}
			}
		}
		m = s.getModel(vars)
		if m != nil && relVars != nil {
			full := make(Model, len(base)+len(m))
			for k, v := range base {
				full[k] = v
			}
			for k, v := range m {
				full[k] = v
			}
			m = full
		}
	}
	if !s.dead {
		s.send("(pop 1)")
	}
	s.dead = false
	if s.sawError {
		res = Unknown
		m = nil
	}
	s.Stats.Seconds += time.Since(t0).Seconds()
	if qlog {
		sz := 0
		for _, c := range rel {
			sz += c.size
		}
		if extra != nil {
			sz += extra.size
		}
		fmt.Fprintf(os.Stderr, "QLOG %.1fms res=%v conj=%d/%d size=%d\n", time.Since(t0).Seconds()*1000, res, len(rel), len(pc), sz)
	}
	switch res {
	case Sat:
		s.Stats.Sat++
	case Unsat:
		s.Stats.UnsatN++
	default:
		s.Stats.UnknownN++
	}
	return res, m
}

func (s *Solver) readResult() Result {
	for {
		l, err := s.readLine()
		if err != nil {
			s.Stats.Errors = append(s.Stats.Errors, "solver pipe: "+err.Error())
			s.sawError = true
			// restart the solver so that later queries can proceed
			s.Close()
			if e := s.start(); e != nil {
				panic(e)
			}
			s.dead = true
			return Unknown
		}
		switch {
		case l == "sat":
			return Sat
		case l == "unsat":
			return Unsat
		case l == "unknown":
			return Unknown
		case strings.HasPrefix(l, "(error"):
			s.sawError = true
			if len(s.Stats.Errors) < 20 {
				s.Stats.Errors = append(s.Stats.Errors, l)
			}
		case l == "":
		default:
			// unexpected output; treat as an error line
			s.sawError = true
			if len(s.Stats.Errors) < 20 {
				s.Stats.Errors = append(s.Stats.Errors, "unexpected: "+l)
			}
		}
	}
}

func (s *Solver) getModel(vars []*Term) Model {
	if len(vars) == 0 {
		return Model{}
	}
	var sb strings.Builder
	sb.WriteString("(get-value (")
	for _, v := range vars {
		sb.WriteString(smtSym(v.Name))
		sb.WriteByte(' ')
	}
	sb.WriteString("))")
	s.send(sb.String())
	// read a balanced s-expression
	var text strings.Builder
	depth := 0
	started := false
	for {
		l, err := s.readLine()
		if err != nil {
			s.sawError = true
			return nil
		}
		if strings.HasPrefix(l, "(error") {
			s.sawError = true
			s.Stats.Errors = append(s.Stats.Errors, l)
			return nil
		}
		inq := false
		for _, c := range l {
			if c == '|' {
				inq = !inq
			}
			if inq {
				continue
			}
			if c == '(' {
				depth++
				started = true
			} else if c == ')' {
				depth--
			}
		}
		text.WriteString(l)
		text.WriteByte(' ')
		if started && depth == 0 {
			break
		}
	}
	m, err := parseModel(text.String(), vars)
	if err != nil {
		s.sawError = true
		s.Stats.Errors = append(s.Stats.Errors, "model parse: "+err.Error())
		return nil
	}
	return m
}

// parseModel parses "((|a| #x01) (|b| true) (|c| (- 3)) ...)".
func parseModel(txt string, vars []*Term) (Model, error) {
	toks := tokenize(txt)
	m := Model{}
	i := 0
	expect := func(t string) error {
		if i >= len(toks) || toks[i] != t {
			got := "<eof>"
			if i < len(toks) {
				got = toks[i]
			}
			return fmt.Errorf("expected %q got %q at %d", t, got, i)
		}
		i++
		return nil
	}
	if err := expect("("); err != nil {
		return nil, err
	}
	for i < len(toks) && toks[i] == "(" {
		i++
		name := toks[i]
		i++
		name = strings.Trim(name, "|")
		var val uint64
		switch {
		case toks[i] == "(":
			// (- n) or (_ bvN w)
			i++
			if toks[i] == "-" {
				i++
				n, err := strconv.ParseInt(toks[i], 10, 64)
				if err != nil {
					return nil, err
				}
				i++
				val = uint64(-n)
			} else if toks[i] == "_" {
				i++
				n, err := strconv.ParseUint(strings.TrimPrefix(toks[i], "bv"), 10, 64)
				if err != nil {
					return nil, err
				}
				i += 2
				val = n
			} else {
				return nil, fmt.Errorf("unexpected value form %q", toks[i])
			}
			if err := expect(")"); err != nil {
				return nil, err
			}
		case toks[i] == "true":
			val = 1
			i++
		case toks[i] == "false":
			val = 0
			i++
		case strings.HasPrefix(toks[i], "#x"):
			n, err := strconv.ParseUint(toks[i][2:], 16, 64)
			if err != nil {
				return nil, err
			}
			val = n
			i++
		case strings.HasPrefix(toks[i], "#b"):
			n, err := strconv.ParseUint(toks[i][2:], 2, 64)
			if err != nil {
				return nil, err
			}
			val = n
			i++
		default:
			n, err := strconv.ParseInt(toks[i], 10, 64)
			if err != nil {
				return nil, fmt.Errorf("value %q: %v", toks[i], err)
			}
			val = uint64(n)
			i++
		}
		if err := expect(")"); err != nil {
			return nil, err
		}
		m[name] = val
	}
	return m, nil
}

func tokenize(s string) []string {
	var toks []string
	i := 0
	for i < len(s) {
		c := s[i]
		switch {
		case c == ' ' || c == '\t' || c == '\n' || c == '\r':
			i++
		case c == '(' || c == ')':
			toks = append(toks, string(c))
			i++
		case c == '|':
			j := i + 1
			for j < len(s) && s[j] != '|' {
				j++
			}
			toks = append(toks, s[i:j+1])
			i = j + 1
		default:
			j := i
			for j < len(s) && !strings.ContainsRune(" \t\n\r()", rune(s[j])) {
				j++
			}
			toks = append(toks, s[i:j])
			i = j
		}
	}
	return toks
}

// ---------------------------------------------------------------------------
// one-shot escalation

type backend struct {
	name string
	argv func(file string, sec int) []string
	pre  string
}

var backends = []backend{
	{"z3-oneshot", func(f string, sec int) []string { return []string{"z3-new", fmt.Sprintf("-T:%d", sec), f} }, ""},
	{"z3-4.8.12", func(f string, sec int) []string { return []string{"z3", fmt.Sprintf("-T:%d", sec), f} }, ""},
	{"cvc5", func(f string, sec int) []string {
		return []string{"cvc5", "--produce-models", fmt.Sprintf("--tlimit=%d", sec*1000), f}
	}, "(set-logic ALL)\n"},
	{"cvc5-bvint", func(f string, sec int) []string {
		return []string{"cvc5", "--produce-models", "--solve-bv-as-int=sum", fmt.Sprintf("--tlimit=%d", sec*1000), f}
	}, "(set-logic ALL)\n"},
}

func (s *Solver) script(pc []*Term, extra *Term, pre string, wantModel bool) string {
	var sb strings.Builder
	sb.WriteString(pre)
	sb.WriteString("(set-option :produce-models true)\n")
	// make sure everything is declared
	for _, c := range pc {
		s.ref(c)
	}
	var er string
	if extra != nil {
		er = s.ref(extra)
	}
	for _, d := range s.decls {
		sb.WriteString(d)
		sb.WriteByte('\n')
	}
	for _, c := range pc {
		sb.WriteString("(assert " + s.ref(c) + ")\n")
	}
	if extra != nil {
		sb.WriteString("(assert " + er + ")\n")
	}
	sb.WriteString("(check-sat)\n")
	if wantModel && len(s.vars) > 0 {
		sb.WriteString("(get-value (")
		for _, v := range s.vars {
			sb.WriteString(smtSym(v.Name) + " ")
		}
		sb.WriteString("))\n")
	}
	return sb.String()
}

type escOut struct {
	name string
	res  Result
	m    Model
	sec  float64
	err  string
}

// Escalate runs the query on the one-shot back ends in parallel; the first
// definite answer wins. only restricts the back ends (nil = all).
func (s *Solver) Escalate(pc []*Term, extra *Term, sec int, wantModel bool, only []string) (Result, Model, string) {
	t0 := time.Now()
	if !wantModel {
		pc, _ = s.slice(pc, extra)
	}
	s.Stats.Escalated++
	s.qseq++
	ch := make(chan escOut, len(backends))
	var procs []*exec.Cmd
	n := 0
	for _, b := range backends {
		if only != nil {
			ok := false
			for _, o := range only {
				if o == b.name {
					ok = true
				}
			}
			if !ok {
				continue
			}
		}
		file := filepath.Join(s.workDir, fmt.Sprintf("q%d_%d_%s.smt2", os.Getpid(), s.qseq, b.name))
		if err := os.WriteFile(file, []byte(s.script(pc, extra, b.pre, wantModel)), 0o644); err != nil {
			continue
		}
		cmd := exec.Command(b.argv(file, sec)[0], b.argv(file, sec)[1:]...)
		procs = append(procs, cmd)
		n++
		go func(b backend, cmd *exec.Cmd, file string) {
			t := time.Now()
			out, _ := cmd.Output()
			os.Remove(file)
			o := escOut{name: b.name, sec: time.Since(t).Seconds()}
			txt := string(out)
			lines := strings.SplitN(strings.TrimSpace(txt), "\n", 2)
			first := strings.TrimSpace(lines[0])
			// an error after "unsat" is the (get-value) that has no model to
			// print; any other error line makes the answer unusable
			if strings.Contains(txt, "(error") && !(first == "unsat" && strings.Count(txt, "(error") == 1 && strings.Contains(txt, "model is not available")) &&
				!(first == "unsat" && strings.Contains(txt, "cannot get value unless")) {
				o.err = firstLineWith(txt, "(error")
				ch <- o
				return
			}
			switch first {
			case "sat":
				o.res = Sat
				if wantModel && len(lines) > 1 {
					m, err := parseModel(lines[1], s.vars)
					if err != nil {
						o.res = Unknown
						o.err = err.Error()
					}
					o.m = m
				}
			case "unsat":
				o.res = Unsat
			}
			ch <- o
		}(b, cmd, file)
	}
	res, by := Unknown, ""
	var model Model
	for i := 0; i < n; i++ {
		o := <-ch
		if o.err != "" && len(s.Stats.Errors) < 20 {
			s.Stats.Errors = append(s.Stats.Errors, o.name+": "+o.err)
		}
		if o.res != Unknown && res == Unknown {
			res, by, model = o.res, o.name, o.m
			for _, p := range procs {
				if p.Process != nil {
					p.Process.Kill()
				}
			}
		} else if o.res != Unknown && o.res != res {
			s.Stats.Disagree = append(s.Stats.Disagree, fmt.Sprintf("%s=%v vs %s=%v", by, res, o.name, o.res))
		}
	}
	if by != "" {
		s.Stats.EscBy[by]++
	}
	s.Stats.EscSeconds += time.Since(t0).Seconds()
	return res, model, by
}

func firstLineWith(txt, sub string) string {
	for _, l := range strings.Split(txt, "\n") {
		if strings.Contains(l, sub) {
			return l
		}
	}
	return ""
}
