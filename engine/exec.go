package main

import (
	"path/filepath"
	"fmt"
	"go/constant"
	"go/token"
	"go/types"
	"math"
	"os"
	"strings"

	"golang.org/x/tools/go/ssa"
)

type fnInfo struct {
	idx         map[ssa.Value]int
	n           int
	firstNonPhi []int
	cfg         *cfgInfo // lazily computed (merge.go)
}

type Config struct {
	Case          map[string]int
	MaxInstrPath  int
	MaxPaths      int
	MaxSeconds    float64
	FeasTimeoutMs int
	AssertTimeout int // ms, live solver
	EscalateSec   int
	MaxConcretize int
	NoMerge       bool
	Trace         bool
	CrossCheck    bool
	SpecBudget    int
	ItemCap       int
	Live          string
	FPMixed       bool
	NoMergeIn     map[string]bool
}

type Engine struct {
	prog      *ssa.Program
	pkg       *ssa.Package
	solver    *Solver
	work      []*State
	infos     map[*ssa.Function]*fnInfo
	cfg       Config
	sizes     types.Sizes
	res       *UnitResult
	inputs    map[string]*Term // declared nondet inputs (name -> var)
	inputKind map[string]string
	funcs     map[string]bool // functions executed (for evidence)
	intrUsed  map[string]bool
	strType   types.Type
	errType   types.Type
	curState  *State
	inits     map[*ssa.Package]bool
	skipInit  func(path string) bool
	native    map[string]nativeImpl
	redirects map[string]string
	ackApps   map[string][]ackApp
	mergeStat map[*ssa.If]*mergeStat
	pruneSeq   int
	validCache map[string]bool
	assertSeen map[int]bool
	axioms    []*Term
}

var forkLog = os.Getenv("VP_FORKLOG") != ""

type pathDead struct{ why string }
type abortSpec struct{ why string }
type pathEnd struct{}

func NewEngine(prog *ssa.Program, pkg *ssa.Package, solver *Solver, cfg Config) *Engine {
	e := &Engine{prog: prog, pkg: pkg, solver: solver, cfg: cfg,
		infos: map[*ssa.Function]*fnInfo{}, inputs: map[string]*Term{}, inputKind: map[string]string{},
		funcs: map[string]bool{}, intrUsed: map[string]bool{}, inits: map[*ssa.Package]bool{},
		ackApps: map[string][]ackApp{}, validCache: map[string]bool{}, assertSeen: map[int]bool{}}
	e.sizes = types.SizesFor("gc", "amd64")
	e.strType = types.Typ[types.String]
	e.errType = types.Universe.Lookup("error").Type()
	e.setupIntrinsics()
	return e
}

func (e *Engine) info(fn *ssa.Function) *fnInfo {
	if fi, ok := e.infos[fn]; ok {
		return fi
	}
	if fn.Blocks == nil && fn.Pkg != nil {
		fn.Pkg.Build()
	}
	fi := &fnInfo{idx: map[ssa.Value]int{}}
	add := func(v ssa.Value) {
		fi.idx[v] = fi.n
		fi.n++
	}
	for _, p := range fn.Params {
		add(p)
	}
	for _, f := range fn.FreeVars {
		add(f)
	}
	fi.firstNonPhi = make([]int, len(fn.Blocks))
	for bi, b := range fn.Blocks {
		k := 0
		for k < len(b.Instrs) {
			if _, ok := b.Instrs[k].(*ssa.Phi); !ok {
				break
			}
			k++
		}
		fi.firstNonPhi[bi] = k
		for _, in := range b.Instrs {
			if v, ok := in.(ssa.Value); ok {
				add(v)
			}
		}
	}
	e.infos[fn] = fi
	e.funcs[fn.String()] = true
	return fi
}

// ---------------------------------------------------------------------------
// operand evaluation

func (e *Engine) constVal(c *ssa.Const) Value {
	t := c.Type()
	if c.Value == nil {
		return zeroValue(t)
	}
	switch u := under(t).(type) {
	case *types.Basic:
		switch {
		case u.Info()&types.IsBoolean != 0:
			return BoolC(constant.BoolVal(c.Value))
		case u.Info()&types.IsString != 0:
			return concStr(constant.StringVal(c.Value))
		case u.Info()&types.IsFloat != 0:
			f, _ := constant.Float64Val(constant.ToFloat(c.Value))
			return concFloat(f)
		case u.Info()&types.IsInteger != 0:
			w, _, _ := intWidth(u)
			v := constant.ToInt(c.Value)
			if i, ok := constant.Int64Val(v); ok {
				return BVC(w, uint64(i))
			}
			if i, ok := constant.Uint64Val(v); ok {
				return BVC(w, i)
			}
		}
	case *types.Interface:
		// typed constant converted to interface: not produced by go/ssa
	}
	panic(unsupported("constant " + c.String()))
}

func (e *Engine) val(st *State, fr *Frame, v ssa.Value) Value {
	switch x := v.(type) {
	case *ssa.Const:
		return e.constVal(x)
	case *ssa.Global:
		return PtrV{Obj: e.globalObj(st, x)}
	case *ssa.Function:
		return FuncV{Fn: x}
	}
	i, ok := fr.Info.idx[v]
	if !ok {
		panic(fmt.Sprintf("internal: no register for %s (%T) in %s", v.Name(), v, fr.Fn))
	}
	r := fr.Env[i]
	if r == nil {
		if _, isTuple := v.Type().(*types.Tuple); isTuple && v.Type().(*types.Tuple).Len() == 0 {
			return nil
		}
	}
	return r
}

func (e *Engine) globalObj(st *State, g *ssa.Global) int {
	if id, ok := st.Globals[g]; ok {
		return id
	}
	if !st.globOwned {
		n := make(map[*ssa.Global]int, len(st.Globals)+4)
		for k, v := range st.Globals {
			n[k] = v
		}
		st.Globals = n
		st.globOwned = true
	}
	id := st.NewObj(zeroValue(g.Type().(*types.Pointer).Elem()), g.Type())
	st.Globals[g] = id
	return id
}

func (fr *Frame) set(v ssa.Value, x Value) {
	fr.Env[fr.Info.idx[v]] = x
}

// ---------------------------------------------------------------------------
// feasibility and forking

func (e *Engine) pcWithAxioms(st *State) []*Term {
	return st.PC
}

// feas reports which truth values of c are feasible under st's path
// condition, with models where the solver produced them.
func (e *Engine) feas(st *State, c *Term) (t, f bool, mT, mF Model) {
	if c.IsConst() {
		return c.IsTrue(), c.IsFalse(), st.Model, st.Model
	}
	if v, ok := st.lookupFact(c); ok {
		return v, !v, st.Model, st.Model
	}
	tKnown, fKnown := false, false
	if st.Model != nil {
		ec := &evalCtx{m: st.Model, memo: map[int]uint64{}}
		v := ec.eval(c)
		if !ec.miss {
			if v != 0 {
				t, tKnown, mT = true, true, st.Model
			} else {
				f, fKnown, mF = true, true, st.Model
			}
		}
	}
	if !tKnown {
		r, m := e.solver.CheckBase(st.feasPC(), c, e.cfg.FeasTimeoutMs, true, st.Model)
		switch r {
		case Sat:
			t, mT = true, m
		case Unsat:
			t = !e.crossCheckPrune(st, c)
		default:
			t = true // unknown: keep the branch (a spurious path cannot produce a confirmed violation)
			e.res.UnknownFeas++
		}
	}
	if !fKnown {
		r, m := e.solver.CheckBase(st.feasPC(), Not(c), e.cfg.FeasTimeoutMs, true, st.Model)
		switch r {
		case Sat:
			f, mF = true, m
		case Unsat:
			f = !e.crossCheckPrune(st, Not(c))
		default:
			f = true
			e.res.UnknownFeas++
		}
	}
	return
}

// crossCheckPrune: an unsat feasibility answer prunes a branch, so a wrong one
// would hide paths. In thorough mode a sample of them (every 40th) is re-run
// on cvc5 and z3 4.8.12; it reports false (do not prune) on disagreement.
func (e *Engine) crossCheckPrune(st *State, c *Term) bool {
	if !e.cfg.CrossCheck {
		return true
	}
	e.pruneSeq++
	if e.pruneSeq%40 != 0 {
		return true
	}
	// the cross-check asserts exactly the conjuncts the live query asserted:
	// inside a speculated branch side the path condition may be
	// unsatisfiable (an infeasible side only feeds an unreachable ite
	// operand), and slicing an unsatisfiable path condition changes the answer
	rel := e.solver.lastRel
	ns := e.solver.NoSlice
	e.solver.NoSlice = true
	r, _, by := e.solver.Escalate(rel, c, 30, false, []string{"cvc5", "z3-4.8.12"})
	e.solver.NoSlice = ns
	e.solver.Stats.CrossCheck++
	if r == Sat {
		e.solver.Stats.Disagree = append(e.solver.Stats.Disagree, fmt.Sprintf("pruned branch: live solver unsat, %s sat", by))
		// keep the query for inspection
		dir := filepath.Join(verifDir(), "work", "disagree")
		os.MkdirAll(dir, 0o755)
		os.WriteFile(filepath.Join(dir, fmt.Sprintf("prune_%d_%d.smt2", os.Getpid(), e.pruneSeq)), []byte(e.solver.script(rel, c, "", true)), 0o644)
		return false
	}
	return true
}

// decide returns the truth value of c on this path, forking if both values
// are feasible. The fork re-executes the current instruction in the clone.
func (e *Engine) decide(st *State, c *Term) bool {
	if c.IsConst() {
		return c.IsTrue()
	}
	if v, ok := st.lookupFact(c); ok {
		return v
	}
	t, f, mT, mF := e.feas(st, c)
	switch {
	case t && !f:
		st.addFact(c, true)
		return true
	case f && !t:
		st.addFact(c, false)
		return false
	case !t && !f:
		panic(pathDead{"infeasible path condition"})
	}
	if st.Spec != nil {
		panic(abortSpec{"fork inside speculation"})
	}
	e.fork(st, c, mT, mF)
	return true
}

func (e *Engine) fork(st *State, c *Term, mT, mF Model) {
	cl := st.Clone()
	cl.Assume(Not(c))
	cl.Model = mF
	cl.Depth++
	st.Depth++
	cl.NBranch++
	st.NBranch++
	e.work = append(e.work, cl)
	e.res.Forks++
	if forkLog {
		fmt.Fprintf(os.Stderr, "FORK%s\n", e.where(st))
	}
	st.Assume(c)
	if mT != nil {
		st.Model = mT
	}
}

// concretize returns a concrete value for the 64-bit (or narrower) term t,
// forking over its feasible values.
func (e *Engine) concretize(st *State, t *Term, what string) uint64 {
	if t.IsConst() {
		return t.U
	}
	for n := 0; ; n++ {
		if n > e.cfg.MaxConcretize {
			panic(unsupported("too many values for symbolic " + what))
		}
		var v uint64
		if st.Model != nil {
			ec := &evalCtx{m: st.Model, memo: map[int]uint64{}}
			v = ec.eval(t)
			if ec.miss {
				st.Model = nil
			}
		}
		if st.Model == nil {
			r, m := e.solver.Check(st.feasPC(), nil, e.cfg.FeasTimeoutMs, true)
			if r == Unsat {
				panic(pathDead{"infeasible"})
			}
			if r != Sat {
				panic(unsupported("solver unknown while concretising " + what))
			}
			st.Model = m
			v = m.Eval(t)
		}
		if e.decide(st, Eq(t, BVC(t.S.W, v))) {
			return v
		}
	}
}

// ---------------------------------------------------------------------------
// panics

func (e *Engine) goPanic(st *State, msg string) {
	e.doPanic(st, IfaceV{T: e.strType, V: concStr(msg)}, msg)
}

type panicSignal struct{}

func (e *Engine) doPanic(st *State, v Value, msg string) {
	if st.Spec != nil {
		panic(abortSpec{"panic inside speculation"})
	}
	st.Panicking = &PanicInfo{Val: v, Msg: msg}
	panic(panicSignal{})
}

// unwind performs one step of panic unwinding.
func (e *Engine) unwind(st *State) {
	fr := st.top()
	st.Panicking.Hold = 0
	if n := len(fr.Defers); n > 0 {
		d := fr.Defers[n-1]
		fr.Defers = fr.Defers[:n-1]
		before := len(st.Frames)
		e.invoke(st, d.Fn, d.Args, -1, true)
		if st.Panicking != nil && len(st.Frames) > before {
			// the deferred function runs (it may recover); unwinding goes
			// on when it has returned
			st.Panicking.Hold = len(st.Frames)
		}
		return
	}
	if fr.Catch {
		// vpPanics marker frame
		st.Frames = st.Frames[:len(st.Frames)-1]
		st.Panicking = nil
		caller := st.top()
		if fr.RetReg >= 0 {
			caller.Env[fr.RetReg] = TrueT
		}
		caller.IP++
		return
	}
	st.Frames = st.Frames[:len(st.Frames)-1]
	if len(st.Frames) == 0 {
		st.end("panic", st.Panicking.Msg)
	}
}

// ---------------------------------------------------------------------------
// main loop

func (e *Engine) run(st *State) bool {
	for {
		if st.Done {
			return false
		}
		if st.Spec != nil && e.atSpecStop(st) {
			return true
		}
		e.step(st)
	}
}

func (e *Engine) atSpecStop(st *State) bool {
	sp := st.Spec
	if len(st.Frames) < sp.Depth {
		return true
	}
	if len(st.Frames) == sp.Depth && sp.J != nil {
		fr := st.top()
		if fr.Block == sp.J && fr.IP == fr.Info.firstNonPhi[sp.J.Index] && st.Panicking == nil {
			return true
		}
	}
	return false
}

func (e *Engine) step(st *State) {
	e.curState = st
	defer func() {
		if r := recover(); r != nil {
			switch x := r.(type) {
			case panicSignal:
				// unwinding continues in the next step
			case pathDead:
				if st.Spec != nil {
					panic(abortSpec{"dead path inside speculation"})
				}
				st.end("dead", x.why)
			case unsupportedErr:
				if st.Spec != nil {
					panic(abortSpec{x.msg})
				}
				st.end("unsupported", x.msg+e.where(st))
			case pathEnd:
			default:
				panic(r)
			}
		}
	}()
	if st.Panicking != nil && !(st.Panicking.Hold > 0 && len(st.Frames) >= st.Panicking.Hold) {
		e.unwind(st)
		return
	}
	st.NInstr++
	if st.NInstr > e.cfg.MaxInstrPath {
		if st.Spec != nil {
			panic(abortSpec{"budget"})
		}
		st.end("budget", "instruction budget exceeded"+e.where(st))
		return
	}
	if st.Spec != nil {
		st.Spec.Budget--
		if st.Spec.Budget < 0 {
			panic(abortSpec{"speculation budget"})
		}
	}
	fr := st.top()
	in := fr.Block.Instrs[fr.IP]
	if e.cfg.Trace {
		fmt.Fprintf(os.Stderr, "[%d] %s b%d.%d: %s\n", len(st.Frames), fr.Fn.Name(), fr.Block.Index, fr.IP, instrString(in))
	}
	e.exec(st, fr, in)
}

func instrString(in ssa.Instruction) string {
	if v, ok := in.(ssa.Value); ok {
		return v.Name() + " = " + in.String()
	}
	return in.String()
}

func (e *Engine) where(st *State) string {
	if len(st.Frames) == 0 {
		return ""
	}
	var sb strings.Builder
	sb.WriteString(" at")
	for i := len(st.Frames) - 1; i >= 0 && i >= len(st.Frames)-4; i-- {
		fr := st.Frames[i]
		pos := token.NoPos
		if fr.IP < len(fr.Block.Instrs) {
			pos = fr.Block.Instrs[fr.IP].Pos()
		}
		p := e.prog.Fset.Position(pos)
		fmt.Fprintf(&sb, " %s(%s:%d)", fr.Fn.String(), shortFile(p.Filename), p.Line)
	}
	return sb.String()
}

func shortFile(f string) string {
	if i := strings.LastIndex(f, "/"); i >= 0 {
		return f[i+1:]
	}
	return f
}

func (e *Engine) jump(st *State, fr *Frame, to *ssa.BasicBlock) {
	from := fr.Block
	fr.Prev = from
	fr.Block = to
	// phis evaluated simultaneously
	np := fr.Info.firstNonPhi[to.Index]
	if np > 0 {
		pi := -1
		for i, p := range to.Preds {
			if p == from {
				pi = i
				break
			}
		}
		vals := make([]Value, np)
		for k := 0; k < np; k++ {
			phi := to.Instrs[k].(*ssa.Phi)
			vals[k] = e.val(st, fr, phi.Edges[pi])
		}
		for k := 0; k < np; k++ {
			fr.set(to.Instrs[k].(*ssa.Phi), vals[k])
		}
	}
	fr.IP = np
}

func (e *Engine) exec(st *State, fr *Frame, in ssa.Instruction) {
	switch x := in.(type) {
	case *ssa.DebugRef:
	case *ssa.Alloc:
		t := x.Type().(*types.Pointer).Elem()
		id := st.NewObj(zeroValue(t), x.Type())
		fr.set(x, PtrV{Obj: id})
	case *ssa.BinOp:
		fr.set(x, e.binop(st, x.Op, x.X.Type(), e.val(st, fr, x.X), e.val(st, fr, x.Y), x.Y.Type()))
	case *ssa.UnOp:
		fr.set(x, e.unop(st, x, e.val(st, fr, x.X)))
	case *ssa.Call:
		e.callInstr(st, fr, x)
		return
	case *ssa.ChangeInterface:
		fr.set(x, e.val(st, fr, x.X))
	case *ssa.ChangeType:
		fr.set(x, e.val(st, fr, x.X))
	case *ssa.Convert:
		fr.set(x, e.convert(st, x.X.Type(), x.Type(), e.val(st, fr, x.X)))
	case *ssa.MultiConvert:
		fr.set(x, e.convert(st, x.X.Type(), x.Type(), e.val(st, fr, x.X)))
	case *ssa.Defer:
		fn, args := e.calleeOf(st, fr, &x.Call)
		fr.Defers = append(fr.Defers, DeferRec{Fn: fn, Args: args})
	case *ssa.Extract:
		t := e.val(st, fr, x.Tuple).(TupleV)
		fr.set(x, t[x.Index])
	case *ssa.Field:
		s := e.val(st, fr, x.X).(*StructV)
		fr.set(x, s.F[x.Field])
	case *ssa.FieldAddr:
		p := e.val(st, fr, x.X).(PtrV)
		if p.Obj == 0 {
			e.goPanic(st, "runtime error: invalid memory address or nil pointer dereference")
		}
		fr.set(x, PtrV{Obj: p.Obj, Path: extPath(p.Path, PathElem{I: x.Field})})
	case *ssa.If:
		e.branch(st, fr, x)
		return
	case *ssa.Index:
		e.execIndex(st, fr, x)
	case *ssa.IndexAddr:
		e.execIndexAddr(st, fr, x)
	case *ssa.Jump:
		e.jump(st, fr, fr.Block.Succs[0])
		return
	case *ssa.Lookup:
		e.execLookup(st, fr, x)
	case *ssa.MakeClosure:
		free := make([]Value, len(x.Bindings))
		for i, b := range x.Bindings {
			free[i] = e.val(st, fr, b)
		}
		fr.set(x, FuncV{Fn: x.Fn.(*ssa.Function), Free: free})
	case *ssa.MakeInterface:
		fr.set(x, IfaceV{T: x.X.Type(), V: e.val(st, fr, x.X)})
	case *ssa.MakeMap:
		mt := under(x.Type()).(*types.Map)
		id := st.NewObj(nil, x.Type())
		st.Heap[id].M = &MapData{Index: map[string]int{}, KeyT: mt.Key(), ValT: mt.Elem()}
		fr.set(x, MapV{Obj: id})
	case *ssa.MakeSlice:
		ln := e.concInt(st, e.val(st, fr, x.Len).(*Term), x.Len.Type(), "make len")
		cp := e.concInt(st, e.val(st, fr, x.Cap).(*Term), x.Cap.Type(), "make cap")
		if ln < 0 || cp < ln {
			e.goPanic(st, "runtime error: makeslice: len out of range")
		}
		if cp > 1<<26 {
			panic(unsupported("make: capacity too large"))
		}
		et := under(x.Type()).(*types.Slice).Elem()
		fr.set(x, e.newSlice(st, et, int(ln), int(cp)))
	case *ssa.MapUpdate:
		e.execMapUpdate(st, fr, x)
	case *ssa.Next:
		e.execNext(st, fr, x)
	case *ssa.Panic:
		v := e.val(st, fr, x.X)
		msg := "panic"
		if iv, ok := v.(IfaceV); ok {
			if s, ok := iv.V.(StrV); ok {
				if cs, ok := s.Concrete(); ok {
					msg = "panic: " + cs
				}
			}
		}
		e.doPanic(st, v, msg)
	case *ssa.Range:
		e.execRange(st, fr, x)
	case *ssa.Return:
		e.execReturn(st, fr, x)
		return
	case *ssa.RunDefers:
		if n := len(fr.Defers); n > 0 {
			d := fr.Defers[n-1]
			fr.Defers = fr.Defers[:n-1]
			e.invoke(st, d.Fn, d.Args, -1, true)
			return // RunDefers is re-executed after the deferred call returns
		}
	case *ssa.Slice:
		e.execSlice(st, fr, x)
	case *ssa.Store:
		p := e.val(st, fr, x.Addr).(PtrV)
		if p.Obj == 0 {
			e.goPanic(st, "runtime error: invalid memory address or nil pointer dereference")
		}
		v := e.val(st, fr, x.Val)
		// a store through a symbolic index is a per-cell ite, which needs
		// mergeable cells; otherwise fork over the index values
		for hasSym(p.Path) && !guardable(v) {
			np := PtrV{Obj: p.Obj, Path: append([]PathElem(nil), p.Path...)}
			for i, pe := range np.Path {
				if pe.Sym != nil {
					c := e.concretize(st, pe.Sym, "store index into non-mergeable cells")
					np.Path[i] = PathElem{I: int(c)}
					break
				}
			}
			p = np
		}
		st.Store(p, v)
	case *ssa.TypeAssert:
		e.execTypeAssert(st, fr, x)
	case *ssa.SliceToArrayPointer:
		s := e.val(st, fr, x.X).(SliceV)
		n := int(under(x.Type().(*types.Pointer).Elem()).(*types.Array).Len())
		if s.Len < n {
			e.goPanic(st, "runtime error: cannot convert slice to array pointer")
		}
		// [n]T(s): the pointer is only dereferenced (loaded), so a copy of the
		// first n elements is an equivalent pointee
		onlyLoads := x.Referrers() != nil
		if onlyLoads {
			for _, r := range *x.Referrers() {
				if u, ok := r.(*ssa.UnOp); !ok || u.Op != token.MUL {
					onlyLoads = false
				}
			}
		}
		if onlyLoads {
			els := make([]Value, n)
			if n > 0 {
				copy(els, e.elems(st, s)[:n])
			}
			id := st.NewObj(&ArrayV{E: els}, x.Type().(*types.Pointer).Elem())
			fr.set(x, PtrV{Obj: id})
			break
		}
		if s.Off != 0 || len(st.sliceArrR(s).E) != n {
			panic(unsupported("slice-to-array-pointer into the middle of a longer array"))
		}
		fr.set(x, PtrV{Obj: s.Obj, Path: s.Path})
	default:
		panic(unsupported(fmt.Sprintf("instruction %T", in)))
	}
	fr.IP++
}

func (e *Engine) concInt(st *State, t *Term, typ types.Type, what string) int64 {
	w, signed, _ := intInfo(typ)
	v := e.concretize(st, t, what)
	if signed {
		return sext(v, w)
	}
	return int64(v)
}

func (e *Engine) newSlice(st *State, et types.Type, ln, cp int) SliceV {
	arr := &ArrayV{E: make([]Value, cp)}
	if cp > 0 {
		z := zeroValue(et)
		switch z.(type) {
		case *StructV, *ArrayV:
			for i := range arr.E {
				arr.E[i] = copyVal(z)
			}
		default:
			for i := range arr.E {
				arr.E[i] = z
			}
		}
	}
	id := st.NewObj(arr, types.NewArray(et, int64(cp)))
	return SliceV{Obj: id, Len: ln, Cap: cp}
}

// ---------------------------------------------------------------------------
// branches

func (e *Engine) branch(st *State, fr *Frame, x *ssa.If) {
	c := e.val(st, fr, x.Cond).(*Term)
	succ := fr.Block.Succs
	if c.IsConst() {
		if c.IsTrue() {
			e.jump(st, fr, succ[0])
		} else {
			e.jump(st, fr, succ[1])
		}
		return
	}
	if v, ok := st.lookupFact(c); ok {
		if v {
			e.jump(st, fr, succ[0])
		} else {
			e.jump(st, fr, succ[1])
		}
		return
	}
	// merge first, without asking the solver whether both sides are feasible:
	// an infeasible side only contributes an unreachable ite operand
	if !e.cfg.NoMerge && e.tryMerge(st, fr, x, c, nil, nil) {
		return
	}
	t, f, mT, mF := e.feas(st, c)
	switch {
	case t && !f:
		st.addFact(c, true)
		e.jump(st, fr, succ[0])
		return
	case f && !t:
		st.addFact(c, false)
		e.jump(st, fr, succ[1])
		return
	case !t && !f:
		panic(pathDead{"infeasible"})
	}
	if st.Spec != nil {
		panic(abortSpec{"unmergeable branch inside speculation"})
	}
	// fork: the clone takes the false side
	cl := st.Clone()
	cl.Assume(Not(c))
	cl.Model = mF
	cl.Depth++
	st.Depth++
	cl.NBranch++
	st.NBranch++
	e.jump(cl, cl.top(), succ[1])
	e.work = append(e.work, cl)
	e.res.Forks++
	if forkLog {
		fmt.Fprintf(os.Stderr, "FORK%s\n", e.where(st))
	}
	st.Assume(c)
	if mT != nil {
		st.Model = mT
	}
	e.jump(st, fr, succ[0])
}

// ---------------------------------------------------------------------------
// calls and returns

func (e *Engine) calleeOf(st *State, fr *Frame, c *ssa.CallCommon) (Value, []Value) {
	var args []Value
	if c.IsInvoke() {
		recv := e.val(st, fr, c.Value)
		iv, ok := recv.(IfaceV)
		if !ok || iv.T == nil {
			e.goPanic(st, "runtime error: invalid memory address or nil pointer dereference (nil interface method call)")
		}
		fn := e.prog.LookupMethod(iv.T, c.Method.Pkg(), c.Method.Name())
		if fn == nil {
			panic(unsupported(fmt.Sprintf("method %s of %s not found", c.Method.Name(), iv.T)))
		}
		args = append(args, iv.V)
		for _, a := range c.Args {
			args = append(args, e.val(st, fr, a))
		}
		return FuncV{Fn: fn}, args
	}
	for _, a := range c.Args {
		args = append(args, e.val(st, fr, a))
	}
	if b, ok := c.Value.(*ssa.Builtin); ok {
		return b, args
	}
	return e.val(st, fr, c.Value), args
}

func (e *Engine) callInstr(st *State, fr *Frame, x *ssa.Call) {
	callee, args := e.calleeOf(st, fr, &x.Call)
	reg := fr.Info.idx[x]
	if b, ok := callee.(*ssa.Builtin); ok {
		r := e.builtin(st, fr, b, x, args)
		fr.Env[reg] = r
		fr.IP++
		return
	}
	e.invoke(st, callee, args, reg, false)
}

type tailCall struct {
	Fn   Value
	Args []Value
}

// invoke calls fn; on return the result is stored in register reg of the
// current top frame and its IP is advanced (unless isDefer: then the caller's
// IP is left alone and the result is dropped).
func (e *Engine) invoke(st *State, callee Value, args []Value, reg int, isDefer bool) {
	catchNext := false
	for {
		if b, ok := callee.(*ssa.Builtin); ok {
			// deferred builtin call (e.g. defer close/delete/recover)
			r := e.builtin(st, st.top(), b, nil, args)
			e.finishCall(st, reg, isDefer, r)
			return
		}
		fv, ok := callee.(FuncV)
		if !ok || fv.IsNil() {
			e.goPanic(st, "runtime error: invalid memory address or nil pointer dereference (nil func call)")
		}
		if fv.Native != nil {
			r := fv.Native.Call(e, st, args)
			if tc, ok := r.(tailCall); ok {
				callee, args = tc.Fn, tc.Args
				continue
			}
			e.finishCall(st, reg, isDefer, r)
			return
		}
		fn := fv.Fn
		if fn.Synthetic == "package initializer" && fn.Pkg != e.pkg && !allowInit(fn.Pkg.Pkg.Path()) {
			e.finishCall(st, reg, isDefer, nil)
			return
		}
		name := fn.String()
		if fn.Origin() != nil {
			name = fn.Origin().String()
		}
		if impl, ok := e.native[name]; ok {
			e.intrUsed[name] = true
			r := impl(e, st, fn, args)
			if tc, ok := r.(tailCall); ok {
				callee, args = tc.Fn, tc.Args
				continue
			}
			if cc, ok := r.(catchCall); ok {
				callee, args = cc.Fn, nil
				catchNext = true
				continue
			}
			if _, skip := r.(notHandled); !skip {
				e.finishCall(st, reg, isDefer, r)
				return
			}
		}
		if to, ok := e.redirects[name]; ok {
			tf := e.pkg.Func(to)
			if tf == nil {
				panic(unsupported("redirect target " + to + " missing in harness runtime"))
			}
			e.intrUsed[name+" -> "+to] = true
			fn = tf
			fv = FuncV{Fn: tf}
		}
		fi := e.info(fn)
		e.funcs[fn.String()] = true
		if fn.Blocks == nil {
			panic(unsupported("call of body-less function " + name))
		}
		if lim := 400; len(st.Frames) > lim && !(st.PeakOn && len(st.Frames) <= 4000000) {
			panic(unsupported("call depth"))
		}
		nf := &Frame{Fn: fn, Info: fi, Block: fn.Blocks[0], Env: make([]Value, fi.n), RetReg: reg, IsDefer: isDefer, Catch: catchNext}
		if len(args) != len(fn.Params) {
			panic(fmt.Sprintf("internal: arity mismatch calling %s: %d args, %d params", fn, len(args), len(fn.Params)))
		}
		for i, p := range fn.Params {
			nf.Env[fi.idx[p]] = args[i]
		}
		for i, f := range fn.FreeVars {
			nf.Env[fi.idx[f]] = fv.Free[i]
		}
		nf.IP = 0
		st.Frames = append(st.Frames, nf)
		if st.PeakOn && len(st.Frames) > st.PeakFrames {
			st.PeakFrames = len(st.Frames)
		}
		return
	}
}

type notHandled struct{}

type catchCall struct{ Fn Value }

func (e *Engine) finishCall(st *State, reg int, isDefer bool, r Value) {
	if isDefer {
		return
	}
	fr := st.top()
	if reg >= 0 {
		fr.Env[reg] = r
	}
	fr.IP++
}

func (e *Engine) execReturn(st *State, fr *Frame, x *ssa.Return) {
	var r Value
	switch len(x.Results) {
	case 0:
	case 1:
		r = e.val(st, fr, x.Results[0])
	default:
		t := make(TupleV, len(x.Results))
		for i, v := range x.Results {
			t[i] = e.val(st, fr, v)
		}
		r = t
	}
	e.popFrame(st, fr, r)
}

func (e *Engine) popFrame(st *State, fr *Frame, r Value) {
	st.Frames = st.Frames[:len(st.Frames)-1]
	if len(st.Frames) == 0 {
		st.end("ok", "")
		return
	}
	if fr.Catch {
		r = FalseT
	}
	if fr.IsDefer {
		// deferred call finished: the caller re-executes RunDefers, or panic
		// unwinding continues
		caller := st.top()
		if caller.Recovered && st.Panicking == nil {
			// the panic was recovered by this deferred call: the function
			// returns through its recover block
			caller.Recovered = false
			if caller.Fn.Recover != nil {
				caller.Prev = caller.Block
				caller.Block = caller.Fn.Recover
				caller.IP = 0
			} else {
				// no named results: return zero values
				var zr Value
				res := caller.Fn.Signature.Results()
				switch res.Len() {
				case 0:
				case 1:
					zr = zeroValue(res.At(0).Type())
				default:
					zr = zeroValue(res)
				}
				// run remaining defers first
				for len(caller.Defers) > 0 {
					panic(unsupported("recover with remaining defers and no recover block"))
				}
				e.popFrame(st, caller, zr)
			}
		}
		return
	}
	caller := st.top()
	if fr.RetReg >= 0 {
		caller.Env[fr.RetReg] = r
	}
	caller.IP++
}

// ---------------------------------------------------------------------------
// type assertion

func (e *Engine) execTypeAssert(st *State, fr *Frame, x *ssa.TypeAssert) {
	iv := e.val(st, fr, x.X).(IfaceV)
	ok := false
	var res Value
	if iv.T != nil {
		if it, isI := under(x.AssertedType).(*types.Interface); isI {
			ok = types.Implements(iv.T, it)
			if !ok {
				// pointer receiver method sets are covered by Implements on the
				// pointer type itself; nothing else to try
			}
			res = iv
		} else {
			ok = types.Identical(iv.T, x.AssertedType)
			res = iv.V
		}
	}
	if !ok {
		if _, isI := under(x.AssertedType).(*types.Interface); isI {
			res = IfaceV{}
		} else {
			res = zeroValue(x.AssertedType)
		}
	}
	if x.CommaOk {
		fr.set(x, TupleV{res, BoolC(ok)})
		return
	}
	if !ok {
		e.goPanic(st, "interface conversion: type assertion failed")
	}
	fr.set(x, res)
}

var _ = math.Abs

// allowInit lists the packages whose initialisers are executed (concretely)
// before a harness runs; every other package is cut off.
func allowInit(path string) bool {
	switch path {
	case "bufio", "bytes", "strings", "io", "strconv", "unicode/utf8", "encoding/csv",
		"encoding/hex", "sort", "slices", "cmp", "iter", "math", "math/bits", "hash", "unicode":
		return true
	}
	if strings.HasPrefix(path, "github.com/fluhus/biostuff") {
		return true
	}
	if strings.HasPrefix(path, "github.com/fluhus/gostuff") {
		return true
	}
	return false
}

// guardable reports whether ite(c, v, old) can be formed for v.
func guardable(v Value) bool {
	switch x := v.(type) {
	case *Term, FloatV:
		return true
	case *StructV:
		for _, f := range x.F {
			if !guardable(f) {
				return false
			}
		}
		return true
	case *ArrayV:
		for _, f := range x.E {
			if !guardable(f) {
				return false
			}
		}
		return true
	}
	return false
}
