package main

// Check driver: expands a check description into (harness, case) units, runs
// them on a pool of worker processes, replays counterexamples and sampled
// witnesses natively, applies the known-findings file, writes the evidence
// file and prints VIOLATION / KNOWN-FINDING lines.

import (
	"bufio"
	"encoding/json"
	"fmt"
	"io"
	"os"
	"os/exec"
	"path/filepath"
	"sort"
	"strconv"
	"strings"
	"sync"
	"time"
)

type CapSpec struct {
	Seconds     float64 `json:"seconds,omitempty"`
	Paths       int     `json:"paths,omitempty"`
	Instr       int     `json:"instr,omitempty"`
	AssertMs    int     `json:"assert_ms,omitempty"`
	EscalateSec int     `json:"escalate_sec,omitempty"`
	FeasMs      int     `json:"feas_ms,omitempty"`
	NoMerge     bool    `json:"nomerge,omitempty"`
	Concretize  int     `json:"concretize,omitempty"`
	Live        string  `json:"live,omitempty"` // live solver: z3-new (default) | z3 | cvc5
	NoMergeIn   []string `json:"nomerge_in,omitempty"` // functions (by name) whose branches are forked, not merged
	FP          bool     `json:"fp,omitempty"`         // integer-valued symbolic floats may be mixed with non-integer constants (IEEE terms)
}

type TierSpec struct {
	Cases []map[string]int `json:"cases,omitempty"`
	Grid  map[string][]int `json:"grid,omitempty"`
	Grids []map[string][]int `json:"grids,omitempty"`
	Caps  *CapSpec         `json:"caps,omitempty"`
}

type UnitSpec struct {
	Pkg      string   `json:"pkg"`
	Harness  string   `json:"harness"`
	What     string   `json:"what,omitempty"`
	Quick    TierSpec `json:"quick"`
	Thorough TierSpec `json:"thorough"`
	Findings []string `json:"findings,omitempty"` // known-finding ids whose class this harness can exclude
	Race     bool     `json:"race,omitempty"`     // native replays of this unit run under the race detector
}

type CheckSpec struct {
	Property    string     `json:"property"`
	Title       string     `json:"title,omitempty"`
	Bounds      []string   `json:"bounds,omitempty"`
	Outside     []string   `json:"outside,omitempty"`
	Assumptions []string   `json:"assumptions,omitempty"`
	Units       []UnitSpec `json:"units"`
}

type Finding struct {
	ID       string            `json:"id"`
	Property []string          `json:"properties"`
	Status   string            `json:"status"` // open | fixed
	What     string            `json:"what"`
	Commit   string            `json:"commit,omitempty"`
	Pkg      string            `json:"pkg,omitempty"`
	Harness  string            `json:"harness,omitempty"`
	Case     map[string]int    `json:"case,omitempty"`
	Nondet   map[string]uint64 `json:"nondet,omitempty"`
	Expect   string            `json:"expect,omitempty"` // native outcome of the witness while the defect is present
	Param    string            `json:"param,omitempty"`  // case parameter that excludes the class (1 = exclude)
	Labels   []string          `json:"labels,omitempty"` // assertion labels this finding explains (informational)
}

type FindingsFile struct {
	Findings []Finding `json:"findings"`
}

type Job struct {
	ID      int            `json:"id"`
	Pkg     string         `json:"pkg"`
	Harness string         `json:"harness"`
	Case    map[string]int `json:"case"`
	Caps    CapSpec        `json:"caps"`
	Seed    int            `json:"seed"`
	Cross   bool           `json:"cross"`
}

type JobResult struct {
	ID int `json:"id"`
	UnitResult
}

func expandTier(t TierSpec) []map[string]int {
	var out []map[string]int
	out = append(out, t.Cases...)
	grids := t.Grids
	if t.Grid != nil {
		grids = append(grids, t.Grid)
	}
	for _, g := range grids {
		keys := make([]string, 0, len(g))
		for k := range g {
			keys = append(keys, k)
		}
		sort.Strings(keys)
		cur := []map[string]int{{}}
		for _, k := range keys {
			var nxt []map[string]int
			for _, c := range cur {
				for _, v := range g[k] {
					n := map[string]int{}
					for kk, vv := range c {
						n[kk] = vv
					}
					n[k] = v
					nxt = append(nxt, n)
				}
			}
			cur = nxt
		}
		out = append(out, cur...)
	}
	// dedupe
	seen := map[string]bool{}
	var ded []map[string]int
	for _, c := range out {
		s := caseString(c)
		if !seen[s] {
			seen[s] = true
			ded = append(ded, c)
		}
	}
	return ded
}

func mergeCaps(base CapSpec, o *CapSpec) CapSpec {
	if o == nil {
		return base
	}
	if o.Seconds != 0 {
		base.Seconds = o.Seconds
	}
	if o.Paths != 0 {
		base.Paths = o.Paths
	}
	if o.Instr != 0 {
		base.Instr = o.Instr
	}
	if o.AssertMs != 0 {
		base.AssertMs = o.AssertMs
	}
	if o.EscalateSec != 0 {
		base.EscalateSec = o.EscalateSec
	}
	if o.FeasMs != 0 {
		base.FeasMs = o.FeasMs
	}
	if o.Concretize != 0 {
		base.Concretize = o.Concretize
	}
	if o.Live != "" {
		base.Live = o.Live
	}
	if o.NoMergeIn != nil {
		base.NoMergeIn = o.NoMergeIn
	}
	base.NoMerge = base.NoMerge || o.NoMerge
	base.FP = base.FP || o.FP
	return base
}

func capsToConfig(c CapSpec, cs map[string]int) Config {
	cfg := defaultConfig()
	cfg.Case = cs
	if c.Seconds != 0 {
		cfg.MaxSeconds = c.Seconds
	}
	if c.Paths != 0 {
		cfg.MaxPaths = c.Paths
	}
	if c.Instr != 0 {
		cfg.MaxInstrPath = c.Instr
	}
	if c.AssertMs != 0 {
		cfg.AssertTimeout = c.AssertMs
	}
	if c.EscalateSec != 0 {
		cfg.EscalateSec = c.EscalateSec
	}
	if c.FeasMs != 0 {
		cfg.FeasTimeoutMs = c.FeasMs
	}
	if c.Concretize != 0 {
		cfg.MaxConcretize = c.Concretize
	}
	cfg.NoMerge = c.NoMerge
	cfg.FPMixed = c.FP
	cfg.Live = c.Live
	cfg.NoMergeIn = map[string]bool{}
	for _, f := range c.NoMergeIn {
		cfg.NoMergeIn[f] = true
	}
	return cfg
}

// ---------------------------------------------------------------------------
// worker process

func cmdWorker(args []string) {
	vd := verifDir()
	work := filepath.Join(vd, "work")
	tmp := filepath.Join(work, "tmp")
	os.MkdirAll(tmp, 0o755)
	loaded := map[string]*Loaded{}
	in := bufio.NewReaderSize(os.Stdin, 1<<20)
	out := bufio.NewWriter(os.Stdout)
	for {
		line, err := in.ReadBytes('\n')
		if len(line) > 0 {
			var job Job
			if e := json.Unmarshal(line, &job); e != nil {
				fmt.Fprintln(os.Stderr, "worker: bad job:", e)
				os.Exit(2)
			}
			var res *UnitResult
			ld := loaded[job.Pkg]
			if ld == nil {
				l, e := loadPackage(vd, repoDir(), job.Pkg, filepath.Join(work, "gen"))
				if e != nil {
					res = &UnitResult{Pkg: job.Pkg, Harness: job.Harness, Case: job.Case, Error: "load: " + e.Error()}
				} else {
					ld = l
					loaded[job.Pkg] = l
				}
			}
			if ld != nil {
				cfg := capsToConfig(job.Caps, job.Case)
				cfg.CrossCheck = job.Cross
				res = RunUnit(ld, job.Harness, cfg, tmp, job.Seed, nil)
			}
			b, _ := json.Marshal(JobResult{ID: job.ID, UnitResult: *res})
			out.Write(b)
			out.WriteByte('\n')
			out.Flush()
			if termSeq > 4_000_000 {
				os.Exit(0) // the driver starts a fresh worker (bounds memory)
			}
		}
		if err != nil {
			return
		}
	}
}

type workerProc struct {
	cmd *exec.Cmd
	in  io.WriteCloser
	out *bufio.Reader
}

func startWorker() (*workerProc, error) {
	exe, err := os.Executable()
	if err != nil {
		return nil, err
	}
	cmd := exec.Command(exe, "worker")
	cmd.Stderr = os.Stderr
	cmd.Env = append(os.Environ(), "GOFLAGS=-mod=mod", "GOPROXY=off", "GOSUMDB=off", "GOTOOLCHAIN=local")
	in, err := cmd.StdinPipe()
	if err != nil {
		return nil, err
	}
	o, err := cmd.StdoutPipe()
	if err != nil {
		return nil, err
	}
	if err := cmd.Start(); err != nil {
		return nil, err
	}
	return &workerProc{cmd: cmd, in: in, out: bufio.NewReaderSize(o, 1<<20)}, nil
}

func (w *workerProc) stop() {
	w.in.Close()
	w.cmd.Process.Kill()
	w.cmd.Wait()
}

func runJobs(jobs []Job, nworkers int, progress func(done, total int)) []JobResult {
	results := make([]JobResult, len(jobs))
	var mu sync.Mutex
	next := 0
	done := 0
	var wg sync.WaitGroup
	if nworkers > len(jobs) {
		nworkers = len(jobs)
	}
	for k := 0; k < nworkers; k++ {
		wg.Add(1)
		go func() {
			defer wg.Done()
			var w *workerProc
			defer func() {
				if w != nil {
					w.stop()
				}
			}()
			for {
				mu.Lock()
				if next >= len(jobs) {
					mu.Unlock()
					return
				}
				ji := next
				next++
				mu.Unlock()
				job := jobs[ji]
				var jr JobResult
				ok := false
				for attempt := 0; attempt < 2 && !ok; attempt++ {
					if w == nil {
						var err error
						w, err = startWorker()
						if err != nil {
							jr = JobResult{ID: job.ID, UnitResult: UnitResult{Pkg: job.Pkg, Harness: job.Harness, Case: job.Case, Error: "worker start: " + err.Error()}}
							break
						}
					}
					b, _ := json.Marshal(job)
					w.in.Write(append(b, '\n'))
					type rd struct {
						line []byte
						err  error
					}
					ch := make(chan rd, 1)
					go func(w *workerProc) {
						l, err := w.out.ReadBytes('\n')
						ch <- rd{l, err}
					}(w)
					limit := time.Duration((job.Caps.Seconds*1.5 + 120) * float64(time.Second))
					select {
					case r := <-ch:
						if r.err != nil && len(r.line) == 0 {
							// worker exited (memory recycling or crash) before answering: retry once on a fresh worker
							w.stop()
							w = nil
							jr = JobResult{ID: job.ID, UnitResult: UnitResult{Pkg: job.Pkg, Harness: job.Harness, Case: job.Case, Error: "worker died"}}
							continue
						}
						if e := json.Unmarshal(r.line, &jr); e != nil {
							jr = JobResult{ID: job.ID, UnitResult: UnitResult{Pkg: job.Pkg, Harness: job.Harness, Case: job.Case, Error: "bad worker output: " + e.Error()}}
						}
						ok = true
						if r.err != nil {
							w.stop()
							w = nil
						}
					case <-time.After(limit):
						w.stop()
						w = nil
						jr = JobResult{ID: job.ID, UnitResult: UnitResult{Pkg: job.Pkg, Harness: job.Harness, Case: job.Case, Error: fmt.Sprintf("killed after %.0fs", limit.Seconds())}}
						ok = true
					}
				}
				mu.Lock()
				results[ji] = jr
				done++
				if progress != nil {
					progress(done, len(jobs))
				}
				mu.Unlock()
			}
		}()
	}
	wg.Wait()
	return results
}

// ---------------------------------------------------------------------------
// native replay

type Vector struct {
	Property string            `json:"property"`
	Pkg      string            `json:"pkg"`
	Harness  string            `json:"harness"`
	Case     map[string]int    `json:"case"`
	Nondet   map[string]uint64 `json:"nondet"`
	Expect   string            `json:"expect,omitempty"` // e.g. "assert:label", "panic"
	Obs      []string          `json:"obs,omitempty"`
	What     string            `json:"what,omitempty"`
	Race     bool              `json:"race,omitempty"`
}

type NativeOut struct {
	I       int      `json:"i"`
	Outcome string   `json:"outcome"`
	Obs     []string `json:"obs"`
}

var overlayMu sync.Mutex

// nativeReplay runs the vectors (all of package pkgDir) against the real build.
func nativeReplay(pkgDir string, vecs []Vector) ([]NativeOut, error) {
	vd := verifDir()
	work := filepath.Join(vd, "work")
	overlayMu.Lock()
	src, test, _, err := genOverlay(vd, repoDir(), pkgDir, filepath.Join(work, "gen"))
	overlayMu.Unlock()
	if err != nil {
		return nil, err
	}
	rep := map[string]string{}
	for k, v := range src {
		rep[k] = v
	}
	for k, v := range test {
		rep[k] = v
	}
	tmp := filepath.Join(work, "tmp")
	os.MkdirAll(tmp, 0o755)
	tag := fmt.Sprintf("%d_%d", os.Getpid(), time.Now().UnixNano())
	ovFile := filepath.Join(tmp, "overlay_"+tag+".json")
	ob, _ := json.Marshal(map[string]interface{}{"Replace": rep})
	if err := os.WriteFile(ovFile, ob, 0o644); err != nil {
		return nil, err
	}
	defer os.Remove(ovFile)
	vecFile := filepath.Join(tmp, "vectors_"+tag+".json")
	vb, _ := json.Marshal(vecs)
	if err := os.WriteFile(vecFile, vb, 0o644); err != nil {
		return nil, err
	}
	defer os.Remove(vecFile)
	argv := []string{"test", "-v", "-vet=off", "-count=1", "-timeout", "20m", "-run", "^TestVPReplay$", "-overlay", ovFile}
	race := false
	for _, v := range vecs {
		race = race || v.Race
	}
	if race {
		argv = append(argv, "-race")
	}
	argv = append(argv, "./"+pkgDir)
	cmd := exec.Command("go", argv...)
	cmd.Dir = repoDir()
	cmd.Env = append(os.Environ(), "VP_REPLAY="+vecFile, "GOFLAGS=-mod=mod", "GOPROXY=off", "GOSUMDB=off", "GOTOOLCHAIN=local")
	out, runErr := cmd.CombinedOutput()
	if os.Getenv("VP_DEBUG_NATIVE") != "" {
		fmt.Fprintln(os.Stderr, string(out))
	}
	var res []NativeOut
	for _, l := range strings.Split(string(out), "\n") {
		if strings.HasPrefix(l, "VP-RESULT ") {
			var n NativeOut
			if e := json.Unmarshal([]byte(l[len("VP-RESULT "):]), &n); e == nil {
				res = append(res, n)
			}
		}
	}
	if race && strings.Contains(string(out), "DATA RACE") {
		// the race detector saw concurrent readers race: every vector that
		// otherwise passed is marked (the harness runs them concurrently only
		// where that is the point of the assertion)
		for i := range res {
			if res[i].Outcome == "ok" {
				res[i].Outcome = "race"
			}
		}
	}
	if len(res) != len(vecs) {
		return res, fmt.Errorf("native replay produced %d of %d results (%v): %s", len(res), len(vecs), runErr, tail(string(out), 1500))
	}
	return res, nil
}

func tail(s string, n int) string {
	if len(s) > n {
		return s[len(s)-n:]
	}
	return s
}

func outcomeMatches(expect, outcome string) bool {
	if expect == "" {
		return false
	}
	if outcome == "race" && strings.Contains(expect, "stores only into memory") {
		return true
	}
	if expect == "panic" || strings.HasPrefix(expect, "panic:") {
		return strings.HasPrefix(outcome, "panic:")
	}
	return outcome == expect
}

func cmdReplay(args []string) int {
	if len(args) < 1 {
		fmt.Fprintln(os.Stderr, "usage: gosmt replay <vector.json>")
		return 2
	}
	raw, err := os.ReadFile(args[0])
	if err != nil {
		fmt.Fprintln(os.Stderr, err)
		return 2
	}
	var v Vector
	if err := json.Unmarshal(raw, &v); err != nil {
		fmt.Fprintln(os.Stderr, err)
		return 2
	}
	outs, err := nativeReplay(v.Pkg, []Vector{v})
	if err != nil {
		fmt.Fprintln(os.Stderr, err)
		return 2
	}
	fmt.Printf("native outcome: %s\nobservations: %v\nexpected (violation): %s\n", outs[0].Outcome, outs[0].Obs, v.Expect)
	if outcomeMatches(v.Expect, outs[0].Outcome) {
		fmt.Printf("REPRODUCED\nVIOLATION property=%s replay=%s\n", v.Property, args[0])
		return 1
	}
	fmt.Println("NOT REPRODUCED")
	return 0
}

// ---------------------------------------------------------------------------
// run a check

func cmdRun(args []string) int {
	if len(args) < 2 {
		fmt.Fprintln(os.Stderr, "usage: gosmt run <Cnn> quick|thorough")
		return 2
	}
	prop, tier := args[0], args[1]
	t0 := time.Now()
	vd := verifDir()
	seed := 0
	if s := os.Getenv("VERIF_SEED"); s != "" {
		seed, _ = strconv.Atoi(s)
	}
	raw, err := os.ReadFile(filepath.Join(vd, "checks", prop+".json"))
	if err != nil {
		fmt.Fprintln(os.Stderr, err)
		return 2
	}
	var spec CheckSpec
	if err := json.Unmarshal(raw, &spec); err != nil {
		fmt.Fprintln(os.Stderr, "check spec:", err)
		return 2
	}
	var ff FindingsFile
	if raw, err := os.ReadFile(filepath.Join(vd, "known_findings.json")); err == nil {
		if err := json.Unmarshal(raw, &ff); err != nil {
			fmt.Fprintln(os.Stderr, "known_findings.json:", err)
			return 2
		}
	}
	nworkers := 16
	if s := os.Getenv("VERIF_WORKERS"); s != "" {
		nworkers, _ = strconv.Atoi(s)
	}

	// 1. known findings: replay each open witness; live ones are excluded by class
	type liveFinding struct {
		f    Finding
		live bool
		note string
	}
	var lives []liveFinding
	exclude := map[string]bool{} // param -> exclude
	var knownLines []string
	for _, f := range ff.Findings {
		if f.Status != "open" {
			continue
		}
		used := false
		for _, u := range spec.Units {
			for _, id := range u.Findings {
				if strings.SplitN(id, ":", 2)[0] == f.ID {
					used = true
				}
			}
		}
		mine := false
		for _, p := range f.Property {
			if p == prop {
				mine = true
			}
		}
		if !used && !mine {
			continue
		}
		lf := liveFinding{f: f}
		outs, err := nativeReplay(f.Pkg, []Vector{{Property: prop, Pkg: f.Pkg, Harness: f.Harness, Case: f.Case, Nondet: f.Nondet}})
		if err != nil {
			lf.note = "witness replay failed: " + err.Error()
		} else if outcomeMatches(f.Expect, outs[0].Outcome) {
			lf.live = true
			lf.note = "witness still violates natively: " + outs[0].Outcome
		} else {
			lf.note = "witness no longer violates (native outcome " + outs[0].Outcome + "): class exclusion dropped"
		}
		if lf.live {
			exclude[f.ID] = true
			if mine {
				knownLines = append(knownLines, fmt.Sprintf("KNOWN-FINDING: property=%s %s [%s]", prop, f.What, f.ID))
			}
		}
		lives = append(lives, lf)
	}

	// 2. jobs
	var jobs []Job
	type jobMeta struct {
		unit int
		race bool
	}
	var metas []jobMeta
	baseCaps := CapSpec{Seconds: 600}
	only := os.Getenv("VERIF_ONLY") // development aid: "harness" or "pkg:harness" substring filter
	for ui, u := range spec.Units {
		if only != "" && !strings.Contains(u.Pkg+":"+u.Harness, only) {
			continue
		}
		cases := expandTier(u.Quick)
		caps := mergeCaps(baseCaps, u.Quick.Caps)
		if tier == "thorough" {
			cases = append(cases, expandTier(u.Thorough)...)
			caps = mergeCaps(caps, u.Thorough.Caps)
			if caps.EscalateSec == 0 {
				caps.EscalateSec = 300
			}
		}
		seen := map[string]bool{}
		for _, c := range cases {
			cc := map[string]int{}
			for k, v := range c {
				cc[k] = v
			}
			for _, idp := range u.Findings {
				// "ID:param": the case parameter is 1 while the listed finding is
				// open and its witness still violates, else 0 (full search)
				parts := strings.SplitN(idp, ":", 2)
				if len(parts) != 2 {
					continue
				}
				cc[parts[1]] = 0
				if exclude[parts[0]] {
					cc[parts[1]] = 1
				}
			}
			key := caseString(cc)
			if seen[key] {
				continue
			}
			seen[key] = true
			jobs = append(jobs, Job{ID: len(jobs), Pkg: u.Pkg, Harness: u.Harness, Case: cc, Caps: caps, Seed: seed, Cross: tier == "thorough" && os.Getenv("VERIF_NOCROSS") == ""})
			metas = append(metas, jobMeta{ui, u.Race})
		}
	}
	if len(jobs) == 0 {
		fmt.Fprintln(os.Stderr, "no units for", prop, tier)
		return 2
	}
	if n := (len(jobs) + 1) / 2; n < nworkers {
		nworkers = n
	}
	verbose := os.Getenv("VERIF_VERBOSE") != ""
	results := runJobs(jobs, nworkers, func(done, total int) {
		if verbose {
			fmt.Fprintf(os.Stderr, "\r%d/%d units", done, total)
		}
	})
	if verbose {
		fmt.Fprintln(os.Stderr)
	}

	// 3. replay counterexamples and sampled witnesses natively, per package
	type pending struct {
		job    int
		isViol bool
		vi     int
		vec    Vector
	}
	byPkg := map[string][]pending{}
	for ji, r := range results {
		for vi, v := range r.Violations {
			exp := "assert:" + v.Label
			if v.Kind == "panic" {
				exp = "panic"
			}
			byPkg[jobs[ji].Pkg] = append(byPkg[jobs[ji].Pkg], pending{ji, true, vi, Vector{Property: prop, Pkg: jobs[ji].Pkg, Harness: jobs[ji].Harness, Case: jobs[ji].Case, Nondet: v.Nondet, Expect: exp, Obs: v.Obs, What: v.Label, Race: metas[ji].race}})
		}
		nw := len(r.Witnesses)
		maxW := 1
		if tier == "thorough" {
			maxW = 3
		}
		for wi := 0; wi < nw && wi < maxW; wi++ {
			w := r.Witnesses[(wi+seed)%nw]
			byPkg[jobs[ji].Pkg] = append(byPkg[jobs[ji].Pkg], pending{ji, false, wi, Vector{Property: prop, Pkg: jobs[ji].Pkg, Harness: jobs[ji].Harness, Case: jobs[ji].Case, Nondet: w.Nondet, Obs: w.Obs, What: boolStr(w.Order, "order-dependent", ""), Race: metas[ji].race}})
		}
	}
	type confirmed struct {
		vec    Vector
		native string
	}
	var violations []confirmed
	var unconfirmed []string
	type retryT struct {
		job int
		vec Vector
		msg string
	}
	var retries []retryT
	var validationErrors []string
	tracesOK := 0
	tracesTried := 0
	var replayErr []string
	var rmu sync.Mutex
	var rwg sync.WaitGroup
	// vectors replayed under the race detector form their own batches
	for pkg, ps := range byPkg {
		var plain, raced []pending
		for _, p := range ps {
			if p.vec.Race {
				raced = append(raced, p)
			} else {
				plain = append(plain, p)
			}
		}
		if len(raced) > 0 && len(plain) > 0 {
			byPkg[pkg] = plain
			byPkg[pkg+"\x00race"] = raced
		}
	}
	for pkg, ps := range byPkg {
		pkg = strings.TrimSuffix(pkg, "\x00race")
		rwg.Add(1)
		go func(pkg string, ps []pending) {
			defer rwg.Done()
			vecs := make([]Vector, len(ps))
			for i, p := range ps {
				vecs[i] = p.vec
			}
			outs, err := nativeReplay(pkg, vecs)
			rmu.Lock()
			defer rmu.Unlock()
			if err != nil {
				replayErr = append(replayErr, err.Error())
				return
			}
			for i, p := range ps {
				o := outs[i]
				if p.isViol {
					if outcomeMatches(p.vec.Expect, o.Outcome) {
						violations = append(violations, confirmed{p.vec, o.Outcome})
					} else if p.vec.What != "" && strings.Contains(results[p.job].Violations[p.vi].Kind, "") && orderDependent(results[p.job]) {
						// map-order dependent counterexamples may need another native order: retried below
						unconfirmed = append(unconfirmed, fmt.Sprintf("%s %s: model did not reproduce natively (native: %s; map-order dependent)", p.vec.Harness, caseString(p.vec.Case), o.Outcome))
					} else {
						msg := fmt.Sprintf("%s %s [%s]: model did not reproduce natively (native outcome: %s)", p.vec.Harness, caseString(p.vec.Case), p.vec.Expect, o.Outcome)
						hasUF := false
						for _, k := range results[p.job].InputKinds {
							hasUF = hasUF || k == "uf"
						}
						if hasUF {
							// the model fixes values of an uninterpreted function
							// (the hash) that the real function need not take on
							// these inputs: other models are tried below
							retries = append(retries, retryT{p.job, p.vec, msg})
						} else {
							unconfirmed = append(unconfirmed, msg)
						}
					}
					continue
				}
				tracesTried++
				if o.Outcome != "ok" {
					if p.vec.What == "order-dependent" {
						tracesTried--
						continue
					}
					validationErrors = append(validationErrors, fmt.Sprintf("%s %s: passing-path model fails natively: %s", p.vec.Harness, caseString(p.vec.Case), o.Outcome))
					continue
				}
				if !sameObs(p.vec.Obs, o.Obs) {
					if p.vec.What == "order-dependent" {
						tracesTried--
						continue
					}
					validationErrors = append(validationErrors, fmt.Sprintf("%s %s: observation log differs: symbolic %v native %v", p.vec.Harness, caseString(p.vec.Case), p.vec.Obs, o.Obs))
					continue
				}
				tracesOK++
			}
		}(pkg, ps)
	}
	rwg.Wait()

	// 3b. counterexamples over an uninterpreted function that did not
	// reproduce with the real function: the unit is run again with other
	// solver seeds (other models), up to four times, and each counterexample
	// for the same assertion is replayed; the first that reproduces counts
	doneRetry := map[string]bool{}
	for _, rt := range retries {
		key := fmt.Sprintf("%d|%s", rt.job, rt.vec.Expect)
		if doneRetry[key] {
			continue
		}
		doneRetry[key] = true
		found := false
		for k := 1; k <= 4 && !found; k++ {
			j2 := jobs[rt.job]
			j2.Seed = seed + 7919*k
			r2 := runJobs([]Job{j2}, 1, nil)
			var vecs []Vector
			for _, v := range r2[0].Violations {
				exp := "assert:" + v.Label
				if v.Kind == "panic" {
					exp = "panic"
				}
				if exp == rt.vec.Expect {
					vecs = append(vecs, Vector{Property: prop, Pkg: j2.Pkg, Harness: j2.Harness, Case: j2.Case, Nondet: v.Nondet, Expect: exp, Obs: v.Obs, What: v.Label})
				}
			}
			if len(vecs) == 0 {
				continue
			}
			outs, err := nativeReplay(j2.Pkg, vecs)
			if err != nil {
				continue
			}
			for i, o := range outs {
				if outcomeMatches(vecs[i].Expect, o.Outcome) {
					violations = append(violations, confirmed{vecs[i], o.Outcome})
					found = true
					break
				}
			}
		}
		if !found {
			unconfirmed = append(unconfirmed, rt.msg+" (nor did the models of four further solver seeds)")
		}
	}

	// 4. verdict
	os.MkdirAll(filepath.Join(vd, "replays", prop), 0o755)
	exit := 0
	var violLines []string
	seenViol := map[string]bool{}
	for i, c := range violations {
		key := c.vec.Harness + "|" + c.vec.Expect
		if seenViol[key] {
			continue
		}
		seenViol[key] = true
		path := filepath.Join(vd, "replays", prop, fmt.Sprintf("%s-%d.json", c.vec.Harness, i))
		b, _ := json.MarshalIndent(c.vec, "", " ")
		os.WriteFile(path, b, 0o644)
		violLines = append(violLines, fmt.Sprintf("VIOLATION property=%s replay=%s", prop, path))
		fmt.Fprintf(os.Stderr, "violation: %s %s: %s (native: %s)\n", c.vec.Harness, caseString(c.vec.Case), c.vec.Expect, c.native)
		exit = 1
	}
	for _, l := range knownLines {
		fmt.Println(l)
	}
	for _, l := range violLines {
		fmt.Println(l)
	}
	var inconc []string
	for ji, r := range results {
		if r.Error != "" {
			inconc = append(inconc, fmt.Sprintf("%s %s: %s", jobs[ji].Harness, caseString(jobs[ji].Case), r.Error))
		}
		for _, m := range r.Inconclusive {
			inconc = append(inconc, fmt.Sprintf("%s %s: %s", jobs[ji].Harness, caseString(jobs[ji].Case), m))
		}
		for _, m := range r.Solver.Disagree {
			inconc = append(inconc, fmt.Sprintf("%s %s: solver disagreement %s", jobs[ji].Harness, caseString(jobs[ji].Case), m))
		}
	}
	for _, u := range unconfirmed {
		inconc = append(inconc, "UNCONFIRMED-CEX "+u)
	}
	for _, u := range validationErrors {
		inconc = append(inconc, "TRANSLATOR-VALIDATION "+u)
	}
	for _, u := range replayErr {
		inconc = append(inconc, "REPLAY-ERROR "+u)
	}
	for _, m := range inconc {
		fmt.Printf("INCONCLUSIVE: property=%s %s\n", prop, m)
	}

	// 5. evidence
	ev := buildEvidence(prop, tier, seed, &spec, jobs, results, tracesOK, tracesTried, len(violations), inconc, knownLines, time.Since(t0).Seconds(), lives2notes(lives))
	evDir := filepath.Join(vd, "evidence")
	if d := os.Getenv("VERIF_EVIDENCE_DIR"); d != "" {
		// seed evaluation against a scratch copy of the repository (VERIF_REPO)
		// must not overwrite the evidence of the real tree
		evDir = d
	}
	os.MkdirAll(evDir, 0o755)
	eb, _ := json.MarshalIndent(ev, "", " ")
	if err := os.WriteFile(filepath.Join(evDir, prop+".json"), append(eb, '\n'), 0o644); err != nil {
		fmt.Fprintln(os.Stderr, "evidence:", err)
	}
	tot := ev["coverage"].(map[string]interface{})
	fmt.Printf("%s %s: %d units, %d paths, %d assertion queries (%d proved), %d native replays ok, %d violations, %d inconclusive, %.1fs\n",
		prop, tier, len(jobs), tot["states"], tot["assertion_queries"], tot["assertions_proved"], tracesOK, len(violations), len(inconc), time.Since(t0).Seconds())
	return exit
}

func lives2notes(ls interface{}) []string {
	return nil
}

func boolStr(b bool, t, f string) string {
	if b {
		return t
	}
	return f
}

func orderDependent(r JobResult) bool {
	for _, w := range r.Witnesses {
		if w.Order {
			return true
		}
	}
	return false
}

func sameObs(a, b []string) bool {
	if len(a) != len(b) {
		return false
	}
	for i := range a {
		if a[i] != b[i] {
			return false
		}
	}
	return true
}

func buildEvidence(prop, tier string, seed int, spec *CheckSpec, jobs []Job, results []JobResult, tracesOK, tracesTried, nviol int, inconc, known []string, wall float64, notes []string) map[string]interface{} {
	states, trans, aq, ap, ac, asr, forks, merges, panics, dead, af := 0, 0, 0, 0, 0, 0, 0, 0, 0, 0, 0
	ag, vq, arf := 0, 0, 0
	queries, qsat, qunsat, qunk, esc, cross := 0, 0, 0, 0, 0, 0
	solverSec, escSec := 0.0, 0.0
	funcs := map[string]bool{}
	intr := map[string]bool{}
	escBy := map[string]int{}
	var samples []interface{}
	var caseList []interface{}
	for ji, r := range results {
		states += r.Paths
		trans += r.Instrs
		aq += r.AssertQueries
		ap += r.AssertsProved
		af += r.AssertsByFacts
		ag += r.AssertsByGlobal
		vq += r.ValidityQueries
		arf += r.AssertsRefuted
		ac += r.AssertsConcrete
		asr += r.Asserts
		forks += r.Forks
		merges += r.Merges
		panics += r.PanicPaths
		dead += r.DeadPaths
		queries += r.Solver.Queries
		qsat += r.Solver.Sat
		qunsat += r.Solver.UnsatN
		qunk += r.Solver.UnknownN
		esc += r.Solver.Escalated
		cross += r.Solver.CrossCheck
		solverSec += r.Solver.Seconds
		escSec += r.Solver.EscSeconds
		for k, v := range r.Solver.EscBy {
			escBy[k] += v
		}
		for _, f := range r.Funcs {
			if !strings.Contains(f, ".vp") && !strings.Contains(f, ".VP_") {
				funcs[f] = true
			}
		}
		for _, f := range r.Intrinsics {
			intr[f] = true
		}
		caseList = append(caseList, map[string]interface{}{
			"harness": jobs[ji].Harness, "case": caseString(jobs[ji].Case), "paths": r.Paths, "dead": r.DeadPaths,
			"asserts": r.Asserts, "assert_queries": r.AssertQueries, "proved": r.AssertsProved, "seconds": round2(r.Seconds),
			"merges": r.Merges, "forks": r.Forks,
		})
		if len(samples) < 12 && len(r.Witnesses) > 0 {
			samples = append(samples, map[string]interface{}{"harness": jobs[ji].Harness, "case": jobs[ji].Case, "inputs_of_one_explored_path": r.Witnesses[0].Nondet, "observed": r.Witnesses[0].Obs})
		}
	}
	repoFuncs := []string{}
	libFuncs := 0
	for f := range funcs {
		if strings.Contains(f, "github.com/fluhus/biostuff") {
			repoFuncs = append(repoFuncs, strings.ReplaceAll(f, "github.com/fluhus/biostuff/", ""))
		} else {
			libFuncs++
		}
	}
	sort.Strings(repoFuncs)
	intrL := []string{}
	for f := range intr {
		if !strings.Contains(f, ".vp") {
			intrL = append(intrL, f)
		} else if strings.Contains(f, "->") {
			intrL = append(intrL, f)
		}
	}
	sort.Strings(intrL)
	if samples == nil {
		samples = []interface{}{"no completed path (see inconclusive)"}
	}
	if states < 1 {
		states = 0
	}
	cov := map[string]interface{}{
		"states":                        states,
		"transitions":                   trans,
		"traces_validated_against_impl": tracesOK,
		"traces_replayed":               tracesTried,
		"samples":                       samples,
		"units":                         len(jobs),
		"cases":                         caseList,
		"assertions_reached":            asr,
		"assertions_concretely_true":    ac,
		"assertion_queries":             aq,
		"assertions_proved":             ap,
		"assertions_implied_by_earlier_unsat_branch_queries": af,
		"assertions_discharged_by_validity_under_assumptions": ag,
		"validity_queries":              vq,
		"assertions_refuted_sat":        arf,
		"assertion_accounting":          "assertions_reached = concretely_true + implied_by_branch_queries + discharged_by_validity + assertion_queries (+ repeats of an already refuted label); assertion_queries = proved (unsat) + refuted (sat) + inconclusive",
		"forks":                         forks,
		"merges":                        merges,
		"panic_paths":                   panics,
		"dead_paths":                    dead,
		"queries":                       map[string]interface{}{"total": queries, "sat": qsat, "unsat": qunsat, "unknown": qunk, "escalated": esc, "escalated_answered_by": escBy, "cross_checked": cross},
		"solver_seconds":                map[string]interface{}{"z3_live": round2(solverSec), "escalation": round2(escSec)},
		"functions_encoded_repo":        repoFuncs,
		"functions_encoded_library":     libFuncs,
		"intrinsics_and_stubs":          intrL,
		"bounds":                        spec.Bounds,
		"outside_claim":                 spec.Outside,
		"inconclusive":                  inconc,
		"known_findings":                known,
		"exhaustive":                    false,
	}
	ev := map[string]interface{}{
		"property_id": prop,
		"tier":        tier,
		"seed":        seed,
		"level":       "model_checking",
		"coverage":    cov,
		"assumptions": append([]string{
			"go/ssa (x/tools v0.29.0) of /repo's working tree is the semantics of the source; the executor's instruction semantics and the listed intrinsics/stubs are trusted (validated by native replay of explored-path models)",
			"every verdict is bounded by the listed cases; unsat means no input within the case's bound violates the assertion on any explored path",
		}, spec.Assumptions...),
		"wall_s":     round2(wall),
		"violations": nviol,
	}
	return ev
}

func round2(f float64) float64 { return float64(int(f*100+0.5)) / 100 }
