package main

// Intercepted functions: the vp* harness primitives, intrinsics for
// body-less / reflection / unsafe based library routines, host calls for
// all-concrete formatting, and redirects into the harness runtime.

import (
	"reflect"
	"fmt"
	"go/token"
	"go/types"
	"math"
	"strconv"
	"strings"

	"golang.org/x/tools/go/ssa"
)

const tokenLSS = token.LSS

type nativeImpl func(e *Engine, st *State, fn *ssa.Function, args []Value) Value

type ackApp struct {
	args []*Term
	res  *Term
}

func (e *Engine) declInput(name string, t *Term, kind string) {
	if _, ok := e.inputs[name]; !ok {
		e.inputs[name] = t
		e.inputKind[name] = kind
		e.res.InputOrder = append(e.res.InputOrder, name)
	}
}

func argStr(v Value) string {
	s, ok := v.(StrV).Concrete()
	if !ok {
		panic(unsupported("symbolic name argument of a vp primitive"))
	}
	return s
}

func argInt(v Value) int {
	t := v.(*Term)
	if !t.IsConst() {
		panic(unsupported("symbolic size argument of a vp primitive"))
	}
	return int(t.SVal())
}

func effect(st *State, what string) {
	if st.Spec != nil {
		panic(abortSpec{"vp primitive with effect inside speculation: " + what})
	}
}

func (e *Engine) setupIntrinsics() {
	p := e.pkg.Pkg.Path() + "."
	n := map[string]nativeImpl{}
	e.native = n
	n[p+"vpSymbolic"] = func(e *Engine, st *State, fn *ssa.Function, a []Value) Value { return TrueT }
	n[p+"vpCase"] = func(e *Engine, st *State, fn *ssa.Function, a []Value) Value {
		name := argStr(a[0])
		v, ok := e.cfg.Case[name]
		if !ok {
			panic(unsupported("case parameter " + name + " not supplied"))
		}
		return BVC(64, uint64(v))
	}
	n[p+"vpCaseOr"] = func(e *Engine, st *State, fn *ssa.Function, a []Value) Value {
		name := argStr(a[0])
		if v, ok := e.cfg.Case[name]; ok {
			return BVC(64, uint64(v))
		}
		return a[1]
	}
	n[p+"vpByte"] = func(e *Engine, st *State, fn *ssa.Function, a []Value) Value {
		name := argStr(a[0])
		t := Var(name, BV(8))
		e.declInput(name, t, "byte")
		return t
	}
	n[p+"vpBytes"] = func(e *Engine, st *State, fn *ssa.Function, a []Value) Value {
		name, ln := argStr(a[0]), argInt(a[1])
		et := types.Typ[types.Uint8]
		s := e.newSlice(st, et, ln, ln)
		if ln > 0 {
			arr := st.sliceArrW(s)
			for i := 0; i < ln; i++ {
				nm := fmt.Sprintf("%s[%d]", name, i)
				t := Var(nm, BV(8))
				e.declInput(nm, t, "byte")
				arr.E[i] = t
			}
		}
		return s
	}
	n[p+"vpStr"] = func(e *Engine, st *State, fn *ssa.Function, a []Value) Value {
		name, ln := argStr(a[0]), argInt(a[1])
		b := make([]*Term, ln)
		for i := 0; i < ln; i++ {
			nm := fmt.Sprintf("%s[%d]", name, i)
			t := Var(nm, BV(8))
			e.declInput(nm, t, "byte")
			b[i] = t
		}
		return StrV{b}
	}
	n[p+"vpInt"] = func(e *Engine, st *State, fn *ssa.Function, a []Value) Value {
		name := argStr(a[0])
		t := Var(name, BV(64))
		e.declInput(name, t, "int")
		return t
	}
	n[p+"vpUint64"] = func(e *Engine, st *State, fn *ssa.Function, a []Value) Value {
		name := argStr(a[0])
		t := Var(name, BV(64))
		e.declInput(name, t, "uint64")
		return t
	}
	n[p+"vpIntRange"] = func(e *Engine, st *State, fn *ssa.Function, a []Value) Value {
		name, lo, hi := argStr(a[0]), argInt(a[1]), argInt(a[2])
		t := Var(name, BV(64))
		e.declInput(name, t, "int")
		effect(st, "vpIntRange")
		c := And(SLe(BVC(64, uint64(lo)), t), SLe(t, BVC(64, uint64(hi))))
		e.assumeChecked(st, c)
		return t
	}
	n[p+"vpBool"] = func(e *Engine, st *State, fn *ssa.Function, a []Value) Value {
		name := argStr(a[0])
		t := Var(name, BoolSort)
		e.declInput(name, t, "bool")
		return t
	}
	n[p+"vpFloatInt"] = func(e *Engine, st *State, fn *ssa.Function, a []Value) Value {
		name, lo, hi := argStr(a[0]), argInt(a[1]), argInt(a[2])
		t := Var(name, IntSort)
		e.declInput(name, t, "floatint")
		effect(st, "vpFloatInt")
		e.assumeChecked(st, And(ILe(IntC(int64(lo)), t), ILe(t, IntC(int64(hi)))))
		return FloatV{Sym: t, Mag: math.Max(math.Abs(float64(lo)), math.Abs(float64(hi)))}
	}
	n[p+"vpChoice"] = func(e *Engine, st *State, fn *ssa.Function, a []Value) Value {
		name, k := argStr(a[0]), argInt(a[1])
		t := Var(name, BV(64))
		e.declInput(name, t, "int")
		effect(st, "vpChoice")
		if k <= 0 {
			panic(pathDead{"empty choice"})
		}
		e.assumeChecked(st, ULt(t, BVC(64, uint64(k))))
		v := e.concretize(st, t, "choice "+name)
		return BVC(64, v)
	}
	n[p+"vpWriteMark"] = func(e *Engine, st *State, fn *ssa.Function, a []Value) Value {
		effect(st, "vpWriteMark")
		st.WriteMark = len(st.Heap)
		st.OldWrites = 0
		return nil
	}
	n[p+"vpOldWrites"] = func(e *Engine, st *State, fn *ssa.Function, a []Value) Value {
		effect(st, "vpOldWrites")
		return BVC(64, uint64(st.OldWrites))
	}
	n[p+"vpPeakMark"] = func(e *Engine, st *State, fn *ssa.Function, a []Value) Value {
		effect(st, "vpPeakMark")
		st.PeakOn, st.PeakFrames = true, len(st.Frames)
		return nil
	}
	n[p+"vpPeakDepth"] = func(e *Engine, st *State, fn *ssa.Function, a []Value) Value {
		effect(st, "vpPeakDepth")
		st.PeakOn = false
		return BVC(64, uint64(st.PeakFrames-len(st.Frames)))
	}
	n[p+"vpStackDepth"] = func(e *Engine, st *State, fn *ssa.Function, a []Value) Value {
		return BVC(64, uint64(len(st.Frames)))
	}
	n[p+"vpConcrete"] = func(e *Engine, st *State, fn *ssa.Function, a []Value) Value {
		t := a[0].(*Term)
		if t.IsConst() {
			return t
		}
		effect(st, "vpConcrete")
		return BVC(64, e.concretize(st, t, "vpConcrete"))
	}
	n[p+"vpAssume"] = func(e *Engine, st *State, fn *ssa.Function, a []Value) Value {
		c := a[0].(*Term)
		if c.IsTrue() {
			return nil
		}
		effect(st, "vpAssume")
		e.assumeChecked(st, c)
		return nil
	}
	n[p+"vpAssert"] = func(e *Engine, st *State, fn *ssa.Function, a []Value) Value {
		c := a[0].(*Term)
		label := argStr(a[1])
		e.res.Asserts++
		if c.IsTrue() {
			e.res.AssertsConcrete++
			return nil
		}
		effect(st, "vpAssert")
		e.checkAssert(st, c, label)
		return nil
	}
	n[p+"vpReach"] = func(e *Engine, st *State, fn *ssa.Function, a []Value) Value {
		effect(st, "vpReach")
		st.Reached[argStr(a[0])] = true
		return nil
	}
	n[p+"vpUnsupported"] = func(e *Engine, st *State, fn *ssa.Function, a []Value) Value {
		panic(unsupported("harness runtime: " + argStr(a[0])))
	}
	n[p+"vpMapOrder"] = func(e *Engine, st *State, fn *ssa.Function, a []Value) Value {
		effect(st, "vpMapOrder")
		st.MapOrder = argInt(a[0])
		return nil
	}
	n[p+"vpPanics"] = func(e *Engine, st *State, fn *ssa.Function, a []Value) Value {
		effect(st, "vpPanics")
		return catchCall{Fn: a[0]}
	}
	obs := func(kind string) nativeImpl {
		return func(e *Engine, st *State, fn *ssa.Function, a []Value) Value {
			effect(st, "vpObserve")
			st.Log = append(st.Log, ObsEntry{Name: argStr(a[0]), Kind: kind, V: e.snapshot(st, a[1])})
			return nil
		}
	}
	n[p+"vpObserveInt"] = obs("int")
	n[p+"vpObserveBytes"] = obs("bytes")
	n[p+"vpObserveStr"] = obs("str")
	n[p+"vpObserveBool"] = obs("bool")
	n[p+"vpHash"] = func(e *Engine, st *State, fn *ssa.Function, a []Value) Value {
		effect(st, "vpHash") // its consistency axioms extend the path condition
		bs := e.elems(st, a[0])
		ts := make([]*Term, len(bs))
		for i, b := range bs {
			ts[i] = b.(*Term)
		}
		return e.ackermann(st, "vpHash", ts, BV(64))
	}
	n[p+"vpLog"] = func(e *Engine, st *State, fn *ssa.Function, a []Value) Value {
		f := a[0].(FloatV)
		if f.isConc() {
			return concFloat(math.Log(f.F))
		}
		// math.Log of a symbolic float64: an uninterpreted function that is
		// only known to be a logarithm by its contract - NaN for NaN and
		// negative arguments, -Inf at 0, 0 at 1, +Inf at +Inf, otherwise
		// finite, negative below 1, positive above 1, and monotone
		// non-decreasing. (Go's software logarithm is assumed, not shown, to
		// be monotone.)
		effect(st, "math.Log")
		x := f.asFP()
		res := e.ackermannT(st, "math.Log", x)
		return FloatV{FP: res}
	}
	n[p+"vpFieldTag"] = func(e *Engine, st *State, fn *ssa.Function, a []Value) Value {
		iv, ok := a[0].(IfaceV)
		if !ok || iv.T == nil {
			panic(unsupported("vpFieldTag of a nil interface"))
		}
		stt, ok := under(iv.T).(*types.Struct)
		if !ok {
			panic(unsupported("vpFieldTag of a non-struct"))
		}
		return concStr(reflect.StructTag(stt.Tag(argInt(a[1]))).Get(argStr(a[2])))
	}
	n[p+"vpFloat64"] = func(e *Engine, st *State, fn *ssa.Function, a []Value) Value {
		name := argStr(a[0])
		t := Var(name, BV(64))
		e.declInput(name, t, "float64 (IEEE bits)")
		return FloatV{FP: FFromBits(t)}
	}

	// --- library intrinsics -------------------------------------------------
	n["math.Log"] = n[p+"vpLog"]
	// reflect: only object identity (reflect.ValueOf(x).Pointer()), used by
	// code that recognises "the same map / pointer as last time"
	n["reflect.ValueOf"] = func(e *Engine, st *State, fn *ssa.Function, a []Value) Value {
		return &StructV{F: []Value{a[0]}}
	}
	n["(reflect.Value).Pointer"] = func(e *Engine, st *State, fn *ssa.Function, a []Value) Value {
		sv, ok := a[0].(*StructV)
		if !ok || len(sv.F) != 1 {
			panic(unsupported("reflect.Value not made by reflect.ValueOf"))
		}
		iv, ok := sv.F[0].(IfaceV)
		if !ok {
			panic(unsupported("reflect.Value.Pointer of a non-interface"))
		}
		switch v := iv.V.(type) {
		case MapV:
			return BVC(64, uint64(v.Obj)<<16)
		case PtrV:
			if len(v.Path) == 0 {
				return BVC(64, uint64(v.Obj)<<16)
			}
		}
		panic(unsupported("reflect.Value.Pointer of this kind of value"))
	}
	n["math.Float64bits"] = func(e *Engine, st *State, fn *ssa.Function, a []Value) Value {
		f := a[0].(FloatV)
		if f.FP != nil && f.FP.Op == OFFromBits {
			return f.FP.Args[0]
		}
		if !f.isConc() {
			panic(unsupported("Float64bits of symbolic float"))
		}
		return BVC(64, math.Float64bits(f.F))
	}
	n["math.Float64frombits"] = func(e *Engine, st *State, fn *ssa.Function, a []Value) Value {
		t := a[0].(*Term)
		if !t.IsConst() {
			return FloatV{FP: FFromBits(t)}
		}
		return concFloat(math.Float64frombits(t.U))
	}
	minmax := func(isMin bool) nativeImpl {
		return func(e *Engine, st *State, fn *ssa.Function, a []Value) Value {
			x, y := a[0].(FloatV), a[1].(FloatV)
			if !x.isConc() || !y.isConc() {
				panic(unsupported("math.Min/Max of symbolic floats"))
			}
			if isMin {
				return concFloat(math.Min(x.F, y.F))
			}
			return concFloat(math.Max(x.F, y.F))
		}
	}
	n["math.Min"] = minmax(true)
	n["math.Max"] = minmax(false)
	n["math.IsNaN"] = func(e *Engine, st *State, fn *ssa.Function, a []Value) Value {
		f := a[0].(FloatV)
		if f.FP != nil {
			return FIsNaN(f.FP)
		}
		if f.Sym != nil {
			return FalseT
		}
		return BoolC(math.IsNaN(f.F))
	}
	n["math.IsInf"] = func(e *Engine, st *State, fn *ssa.Function, a []Value) Value {
		f := a[0].(FloatV)
		if f.FP != nil {
			sign := argInt(a[1])
			pinf, ninf := FEq(f.FP, FPC(math.Inf(1))), FEq(f.FP, FPC(math.Inf(-1)))
			switch {
			case sign > 0:
				return pinf
			case sign < 0:
				return ninf
			}
			return Or(pinf, ninf)
		}
		if f.Sym != nil {
			return FalseT
		}
		return BoolC(math.IsInf(f.F, argInt(a[1])))
	}
	for name, hf := range map[string]func(float64) float64{"Trunc": math.Trunc, "Floor": math.Floor, "Ceil": math.Ceil, "Abs": math.Abs, "Sqrt": math.Sqrt, "Round": math.Round} {
		name, hf := name, hf
		n["math."+name] = func(e *Engine, st *State, fn *ssa.Function, a []Value) Value {
			f := a[0].(FloatV)
			if f.isConc() {
				return concFloat(hf(f.F))
			}
			if f.Sym != nil && (name == "Trunc" || name == "Floor" || name == "Ceil" || name == "Round") {
				return f // integer-valued
			}
			panic(unsupported("math." + name + " of a symbolic float"))
		}
	}
	n["math.Inf"] = func(e *Engine, st *State, fn *ssa.Function, a []Value) Value {
		return concFloat(math.Inf(argInt(a[0])))
	}
	n["math.NaN"] = func(e *Engine, st *State, fn *ssa.Function, a []Value) Value {
		return concFloat(math.NaN())
	}
	n["strconv.ParseFloat"] = func(e *Engine, st *State, fn *ssa.Function, a []Value) Value {
		s, ok := a[0].(StrV).Concrete()
		if !ok {
			// totality harnesses replace this with an arbitrary result
			if tf := e.pkg.Func("vpParseFloatStub"); tf != nil {
				e.intrUsed["strconv.ParseFloat -> vpParseFloatStub (arbitrary result)"] = true
				return tailCall{Fn: FuncV{Fn: tf}, Args: a}
			}
			panic(unsupported("ParseFloat of symbolic text"))
		}
		f, err := strconv.ParseFloat(s, argInt(a[1]))
		if err != nil {
			return TupleV{concFloat(f), e.opaqueError(st, "strconv.ParseFloat: "+err.Error())}
		}
		return TupleV{concFloat(f), IfaceV{}}
	}
	n["strconv.FormatFloat"] = func(e *Engine, st *State, fn *ssa.Function, a []Value) Value {
		f := a[0].(FloatV)
		if f.Sym != nil {
			panic(unsupported("FormatFloat of symbolic float"))
		}
		return concStr(strconv.FormatFloat(f.F, byte(argInt(a[1])), argInt(a[2]), argInt(a[3])))
	}
	n["(*strings.Builder).copyCheck"] = func(e *Engine, st *State, fn *ssa.Function, a []Value) Value { return nil }
	n["(*strings.Builder).String"] = func(e *Engine, st *State, fn *ssa.Function, a []Value) Value {
		p := a[0].(PtrV)
		b := st.Load(PtrV{Obj: p.Obj, Path: extPath(p.Path, PathElem{I: 1})}).(SliceV)
		return e.convert(st, types.NewSlice(types.Typ[types.Uint8]), types.Typ[types.String], b)
	}
	n["internal/bytealg.MakeNoZero"] = func(e *Engine, st *State, fn *ssa.Function, a []Value) Value {
		k := int(e.concInt(st, a[0].(*Term), types.Typ[types.Int], "MakeNoZero length"))
		if k < 0 {
			e.goPanic(st, "runtime error: makeslice: len out of range")
		}
		return e.newSlice(st, types.Typ[types.Uint8], k, k)
	}
	e.setupAtomics(n)
	n["sort.Slice"] = nativeSortSlice
	n["sort.SliceStable"] = nativeSortSlice
	n["regexp.MustCompile"] = func(e *Engine, st *State, fn *ssa.Function, a []Value) Value {
		pat := argStr(a[0])
		id := st.NewObj(&StructV{F: []Value{concStr(pat)}}, nil)
		return PtrV{Obj: id}
	}
	n["(*regexp.Regexp).FindAllString"] = func(e *Engine, st *State, fn *ssa.Function, a []Value) Value {
		p := a[0].(PtrV)
		pat := argStr(st.obj(p.Obj).V.(*StructV).F[0])
		if pat != `\S+` || argInt(a[2]) != -1 {
			panic(unsupported("regexp other than \\S+ with n=-1"))
		}
		tf := e.pkg.Func("vpFindAllNonSpace")
		if tf == nil {
			panic(unsupported("vpFindAllNonSpace missing in harness runtime"))
		}
		return tailCall{Fn: FuncV{Fn: tf}, Args: []Value{a[1]}}
	}
	n["(*regexp.Regexp).FindAll"] = func(e *Engine, st *State, fn *ssa.Function, a []Value) Value {
		p := a[0].(PtrV)
		pat := argStr(st.obj(p.Obj).V.(*StructV).F[0])
		if pat != `\S+` || argInt(a[2]) != -1 {
			panic(unsupported("regexp other than \\S+ with n=-1"))
		}
		tf := e.pkg.Func("vpFindAllNonSpaceBytes")
		if tf == nil {
			panic(unsupported("vpFindAllNonSpaceBytes missing in harness runtime"))
		}
		return tailCall{Fn: FuncV{Fn: tf}, Args: []Value{a[1]}}
	}
	// any other method of the marker object made by regexp.MustCompile
	for _, m := range []string{"Find", "FindString", "FindIndex", "FindStringIndex", "FindSubmatch", "FindStringSubmatch", "FindAllIndex", "FindAllStringIndex", "FindAllSubmatch", "FindAllStringSubmatch", "Match", "MatchString", "ReplaceAll", "ReplaceAllString", "ReplaceAllLiteral", "ReplaceAllLiteralString", "Split", "String"} {
		m := m
		n["(*regexp.Regexp)."+m] = func(e *Engine, st *State, fn *ssa.Function, a []Value) Value {
			panic(unsupported("(*regexp.Regexp)." + m + " (only \\S+ with FindAll/FindAllString is modelled)"))
		}
	}
	// fmt
	n["fmt.Errorf"] = func(e *Engine, st *State, fn *ssa.Function, a []Value) Value {
		// the text is opaque; a %w operand keeps its place in the error chain
		// (errors.Is / errors.Unwrap see it)
		if f, ok := a[0].(StrV).Concrete(); ok && strings.Contains(f, "%w") {
			idx, arg := 0, -1
			for i := 0; i < len(f); i++ {
				if f[i] != '%' {
					continue
				}
				i++
				for i < len(f) && strings.IndexByte("#0+- 123456789.", f[i]) >= 0 {
					i++
				}
				if i >= len(f) {
					break
				}
				if f[i] == '%' {
					continue
				}
				if f[i] == 'w' && arg < 0 {
					arg = idx
				}
				idx++
			}
			if tf := e.pkg.Func("vpWrapErr"); tf != nil && arg >= 0 {
				if els := e.elems(st, a[1]); arg < len(els) {
					if iv, ok := els[arg].(IfaceV); ok && iv.T != nil {
						e.intrUsed["fmt.Errorf with %w -> vpWrapErr (opaque text, error chain kept)"] = true
						return tailCall{Fn: FuncV{Fn: tf}, Args: []Value{iv}}
					}
				}
			}
		}
		return e.opaqueError(st, "fmt.Errorf")
	}
	n["fmt.Sprintf"] = func(e *Engine, st *State, fn *ssa.Function, a []Value) Value {
		if format, fok := a[0].(StrV).Concrete(); fok {
			if hv, ok := e.hostArgs(st, a[1]); ok {
				return concStr(fmt.Sprintf(format, hv...))
			}
		}
		// messages built from symbolic data (panic and error texts) are opaque
		e.intrUsed["fmt.Sprintf with symbolic arguments -> opaque text"] = true
		return concStr("<fmt.Sprintf: opaque>")
	}
	n["fmt.Sprint"] = func(e *Engine, st *State, fn *ssa.Function, a []Value) Value {
		if hv, ok := e.hostArgs(st, a[0]); ok {
			return concStr(fmt.Sprint(hv...))
		}
		panic(unsupported("Sprint with symbolic arguments"))
	}
	n["fmt.Sprintln"] = func(e *Engine, st *State, fn *ssa.Function, a []Value) Value {
		if hv, ok := e.hostArgs(st, a[0]); ok {
			return concStr(fmt.Sprintln(hv...))
		}
		panic(unsupported("Sprintln with symbolic arguments"))
	}
	fwrite := func(which string) nativeImpl {
		return func(e *Engine, st *State, fn *ssa.Function, a []Value) Value {
			w := a[0]
			var txt string
			var ok bool
			var hv []interface{}
			switch which {
			case "Fprintf":
				// (a format string holding symbolic bytes - data used as a
				// format - goes to the model as well)
				if f, fok := a[1].(StrV).Concrete(); fok {
					if hv, ok = e.hostArgs(st, a[2]); ok {
						txt = fmt.Sprintf(f, hv...)
					}
				}
			case "Fprint":
				if hv, ok = e.hostArgs(st, a[1]); ok {
					txt = fmt.Sprint(hv...)
				}
			case "Fprintln":
				if hv, ok = e.hostArgs(st, a[1]); ok {
					txt = fmt.Sprintln(hv...)
				}
			}
			if ok {
				// w.Write(txt)
				buf := e.convert(st, types.Typ[types.String], types.NewSlice(types.Typ[types.Uint8]), concStr(txt))
				return e.invokeMethodTail(st, w, "Write", []Value{buf})
			}
			tf := e.pkg.Func("vp" + which)
			if tf == nil {
				panic(unsupported(which + " with symbolic arguments and no harness model"))
			}
			e.intrUsed["fmt."+which+" -> vp"+which+" (symbolic arguments)"] = true
			return tailCall{Fn: FuncV{Fn: tf}, Args: a}
		}
	}
	n["fmt.Fprintf"] = fwrite("Fprintf")
	n["fmt.Fprint"] = fwrite("Fprint")
	n["fmt.Fprintln"] = fwrite("Fprintln")

	// package initialisers of packages that are cut off
	e.redirects = map[string]string{
		"internal/bytealg.IndexByte":       "vpIndexByte",
		"internal/bytealg.IndexByteString": "vpIndexByteString",
		"internal/bytealg.Index":           "vpIndex",
		"internal/bytealg.IndexString":     "vpIndexString",
		"internal/bytealg.Count":           "vpCount",
		"internal/bytealg.CountString":     "vpCountString",
		"internal/bytealg.Compare":         "vpCompare",
		"internal/bytealg.Equal":           "vpEqual",
		"internal/bytealg.LastIndexByte":   "vpLastIndexByte",
		"internal/bytealg.LastIndexByteString": "vpLastIndexByteString",
		"os.Open":                          "vpOsOpen",
		"(*os.File).Read":                  "vpFileRead",
		"(*os.File).Close":                 "vpFileClose",
		"(*os.File).Stat":                  "vpFileStat",
		"os.Stat":                          "vpOsStat",
		"os.Lstat":                         "vpOsStat",
		"(*sync.Mutex).Lock":               "vpMutexLock",
		"(*sync.Mutex).Unlock":             "vpMutexUnlock",
		"(*sync.Mutex).TryLock":            "vpMutexTryLock",
		"(*sync.RWMutex).Lock":             "vpRWLock",
		"(*sync.RWMutex).Unlock":           "vpRWUnlock",
		"(*sync.RWMutex).RLock":            "vpRWRLock",
		"(*sync.RWMutex).RUnlock":          "vpRWRUnlock",
		"(*sync.Once).Do":                  "vpOnceDo",
		"errors.Is":                        "vpErrorsIs",
		"(*sync.Map).Load":                 "vpSyncMapLoad",
		"(*sync.Map).Store":                "vpSyncMapStore",
		"(*sync.Map).LoadOrStore":          "vpSyncMapLoadOrStore",
		"(*sync.Map).Delete":               "vpSyncMapDelete",
		"(*sync.Pool).Get":                 "vpPoolGet",
		"(*sync.Pool).Put":                 "vpPoolPut",
		"encoding/json.Marshal":            "vpJSONMarshal",
		"encoding/json.Unmarshal":          "vpJSONUnmarshal",
		"compress/gzip.NewReader":          "vpGzipNewReader",
		"(*compress/gzip.Reader).Read":     "vpGzipRead",
		"github.com/spaolacci/murmur3.New64WithSeed": "vpNewHash64",
	}
}

func (e *Engine) invokeMethodTail(st *State, recv Value, name string, args []Value) Value {
	iv, ok := recv.(IfaceV)
	if !ok || iv.T == nil {
		e.goPanic(st, "nil interface method call")
	}
	var pkg *types.Package
	fn := e.prog.LookupMethod(iv.T, pkg, name)
	if fn == nil {
		panic(unsupported("method " + name + " of " + iv.T.String()))
	}
	return tailCall{Fn: FuncV{Fn: fn}, Args: append([]Value{iv.V}, args...)}
}

// opaqueError allocates an error value whose message is not modelled.
func (e *Engine) opaqueError(st *State, msg string) Value {
	// *errors.errorString{s}
	ep := e.prog.ImportedPackage("errors")
	if ep == nil {
		panic(unsupported("errors package not loaded"))
	}
	t := ep.Type("errorString")
	if t == nil {
		panic(unsupported("errors.errorString not found"))
	}
	id := st.NewObj(&StructV{F: []Value{concStr(msg)}}, t.Type())
	return IfaceV{T: types.NewPointer(t.Type()), V: PtrV{Obj: id}}
}

// assumeChecked adds c to the path condition; the path dies if it becomes
// infeasible.
func (e *Engine) assumeChecked(st *State, c *Term) {
	if c.IsFalse() {
		panic(pathDead{"assumption false"})
	}
	if v, ok := st.lookupFact(c); ok {
		if !v {
			panic(pathDead{"assumption false"})
		}
		return
	}
	t, _, mT, _ := e.feasT(st, c)
	if !t {
		panic(pathDead{"assumption infeasible"})
	}
	st.Assume(c)
	st.Assumed = append(st.Assumed, c)
	if mT != nil {
		st.Model = mT
	}
}

// feasT checks only whether c can be true.
func (e *Engine) feasT(st *State, c *Term) (bool, bool, Model, Model) {
	if st.Model != nil {
		ec := &evalCtx{m: st.Model, memo: map[int]uint64{}}
		if ec.eval(c) != 0 && !ec.miss {
			return true, false, st.Model, nil
		}
	}
	r, m := e.solver.CheckBase(st.feasPC(), c, e.cfg.FeasTimeoutMs, true, st.Model)
	switch r {
	case Sat:
		return true, false, m, nil
	case Unsat:
		return false, false, nil, nil
	}
	e.res.UnknownFeas++
	return true, false, nil, nil
}

// snapshot turns a value into a pure term-level value (slices -> strings).
func (e *Engine) snapshot(st *State, v Value) Value {
	if s, ok := v.(SliceV); ok {
		els := e.elems(st, s)
		b := make([]*Term, len(els))
		for i, x := range els {
			b[i] = x.(*Term)
		}
		return StrV{b}
	}
	return v
}

func (e *Engine) ackermann(st *State, fname string, args []*Term, s Sort) *Term {
	key := fmt.Sprintf("%s/%d", fname, len(args))
	if st.Ack == nil {
		st.Ack = map[string][]ackApp{}
	}
	for _, a := range st.Ack[key] {
		same := true
		for i := range args {
			if a.args[i] != args[i] {
				same = false
				break
			}
		}
		if same {
			return a.res
		}
	}
	// the result variable is named after the argument terms, so that the same
	// application made on different paths is the same variable
	var sb strings.Builder
	sb.WriteString(key)
	for _, a := range args {
		fmt.Fprintf(&sb, ".%d", a.ID)
	}
	name := sb.String()
	res := Var(name, s)
	e.declInput(name, res, "uf")
	// functional consistency with every earlier application on this path
	for _, a := range st.Ack[key] {
		eqs := make([]*Term, len(args))
		for i := range args {
			eqs[i] = Eq(a.args[i], args[i])
		}
		ax := Or(Not(And(eqs...)), Eq(a.res, res))
		st.Assume(ax)
		st.Assumed = append(st.Assumed, ax)
	}
	st.Ack[key] = append(st.Ack[key], ackApp{args: args, res: res})
	return res
}


// atomics: the executor runs one goroutine, so an atomic operation is the
// plain operation on the cell that holds the value.
func (e *Engine) setupAtomics(n map[string]nativeImpl) {
	fieldV := func(fn *ssa.Function, recv Value) PtrV {
		p := recv.(PtrV)
		if p.Obj == 0 {
			panic(unsupported("atomic operation on a nil pointer"))
		}
		rt := fn.Signature.Recv().Type()
		stt, ok := under(rt.(*types.Pointer).Elem()).(*types.Struct)
		if !ok {
			panic(unsupported("atomic type is not a struct"))
		}
		for i := 0; i < stt.NumFields(); i++ {
			if stt.Field(i).Name() == "v" {
				return PtrV{Obj: p.Obj, Path: extPath(p.Path, PathElem{I: i})}
			}
		}
		panic(unsupported("atomic type without a field v"))
	}
	nilPtr := func(v Value) Value {
		if v == nil {
			return PtrV{}
		}
		return v
	}
	// typed wrappers
	for _, t := range []string{"Pointer[T]", "Value", "Int32", "Int64", "Uint32", "Uint64", "Uintptr", "Bool"} {
		t := t
		isNum := t != "Pointer[T]" && t != "Value" && t != "Bool"
		n["(*sync/atomic."+t+").Load"] = func(e *Engine, st *State, fn *ssa.Function, a []Value) Value {
			v := st.Load(fieldV(fn, a[0]))
			if t == "Bool" {
				return Not(Eq(v.(*Term), BVC(32, 0)))
			}
			if t == "Pointer[T]" {
				return nilPtr(v)
			}
			return v
		}
		n["(*sync/atomic."+t+").Store"] = func(e *Engine, st *State, fn *ssa.Function, a []Value) Value {
			v := a[1]
			if t == "Bool" {
				v = Ite(a[1].(*Term), BVC(32, 1), BVC(32, 0))
			}
			st.Store(fieldV(fn, a[0]), v)
			return nil
		}
		n["(*sync/atomic."+t+").Swap"] = func(e *Engine, st *State, fn *ssa.Function, a []Value) Value {
			if t == "Bool" {
				panic(unsupported("atomic.Bool.Swap"))
			}
			fp := fieldV(fn, a[0])
			old := st.Load(fp)
			st.Store(fp, a[1])
			if t == "Pointer[T]" {
				return nilPtr(old)
			}
			return old
		}
		if isNum {
			n["(*sync/atomic."+t+").Add"] = func(e *Engine, st *State, fn *ssa.Function, a []Value) Value {
				fp := fieldV(fn, a[0])
				nv := BVAdd(st.Load(fp).(*Term), a[1].(*Term))
				st.Store(fp, nv)
				return nv
			}
			n["(*sync/atomic."+t+").CompareAndSwap"] = func(e *Engine, st *State, fn *ssa.Function, a []Value) Value {
				fp := fieldV(fn, a[0])
				if e.decide(st, Eq(st.Load(fp).(*Term), a[1].(*Term))) {
					st.Store(fp, a[2])
					return TrueT
				}
				return FalseT
			}
		}
	}
	n["(*sync/atomic.Pointer[T]).CompareAndSwap"] = func(e *Engine, st *State, fn *ssa.Function, a []Value) Value {
		fp := fieldV(fn, a[0])
		if e.decide(st, e.eqVal(nilPtr(st.Load(fp)), a[1])) {
			st.Store(fp, a[2])
			return TrueT
		}
		return FalseT
	}
	// function forms on plain cells
	for _, t := range []string{"Int32", "Int64", "Uint32", "Uint64", "Uintptr"} {
		n["sync/atomic.Load"+t] = func(e *Engine, st *State, fn *ssa.Function, a []Value) Value {
			return st.Load(a[0].(PtrV))
		}
		n["sync/atomic.Store"+t] = func(e *Engine, st *State, fn *ssa.Function, a []Value) Value {
			st.Store(a[0].(PtrV), a[1])
			return nil
		}
		n["sync/atomic.Add"+t] = func(e *Engine, st *State, fn *ssa.Function, a []Value) Value {
			p := a[0].(PtrV)
			nv := BVAdd(st.Load(p).(*Term), a[1].(*Term))
			st.Store(p, nv)
			return nv
		}
		n["sync/atomic.Swap"+t] = func(e *Engine, st *State, fn *ssa.Function, a []Value) Value {
			p := a[0].(PtrV)
			old := st.Load(p)
			st.Store(p, a[1])
			return old
		}
		n["sync/atomic.CompareAndSwap"+t] = func(e *Engine, st *State, fn *ssa.Function, a []Value) Value {
			p := a[0].(PtrV)
			if e.decide(st, Eq(st.Load(p).(*Term), a[1].(*Term))) {
				st.Store(p, a[2])
				return TrueT
			}
			return FalseT
		}
	}
}

// ackermannT: math.Log as an uninterpreted function with its contract.
func (e *Engine) ackermannT(st *State, fname string, x *Term) *Term {
	key := fname + "/fp"
	if st.Ack == nil {
		st.Ack = map[string][]ackApp{}
	}
	for _, a := range st.Ack[key] {
		if a.args[0] == x {
			return a.res
		}
	}
	name := fmt.Sprintf("%s.%d", key, x.ID)
	bits := Var(name, BV(64))
	e.declInput(name, bits, "uf")
	res := FFromBits(bits)
	zero, one := FPC(0), FPC(1)
	pinf, ninf := FPC(math.Inf(1)), FPC(math.Inf(-1))
	assume := func(ax *Term) {
		st.Assume(ax)
		st.Assumed = append(st.Assumed, ax)
	}
	imp := func(p, q *Term) *Term { return Or(Not(p), q) }
	bad := Or(FIsNaN(x), FLt(x, zero))
	assume(Eq(bad, FIsNaN(res)))              // NaN exactly for NaN and negative arguments
	assume(imp(FEq(x, zero), FEq(res, ninf))) // Log(+-0) = -Inf
	assume(imp(FEq(res, ninf), FEq(x, zero)))
	assume(imp(FEq(x, one), FEq(res, zero)))
	assume(imp(FEq(x, pinf), FEq(res, pinf)))
	assume(imp(FEq(res, pinf), FEq(x, pinf)))
	assume(imp(And(FLt(zero, x), FLt(x, one)), FLt(res, zero)))
	assume(imp(FLt(one, x), FLt(zero, res)))
	// monotone (and thereby functional) with every earlier application
	for _, a := range st.Ack[key] {
		y, ry := a.args[0], a.res
		assume(imp(And(FLe(zero, x), FLe(x, y)), FLe(res, ry)))
		assume(imp(And(FLe(zero, y), FLe(y, x)), FLe(ry, res)))
	}
	st.Ack[key] = append(st.Ack[key], ackApp{args: []*Term{x}, res: res})
	return res
}

// checkAssert decides whether the assertion c can fail on this path.
func (e *Engine) checkAssert(st *State, c *Term, label string) {
	if v, ok := st.lookupFact(c); ok && v {
		// already established on this path by an earlier unsat feasibility query
		e.res.AssertsByFacts++
		return
	}
	if e.res.violSeen["assert|"+label] {
		// a counterexample for this assertion is already recorded in this unit
		e.assumeChecked(st, c)
		return
	}
	// The same assertion term met again on another path: try to show it valid
	// under the harness assumptions alone (a subset of every path condition),
	// once; success discharges it on every path with those assumptions.
	key := fmt.Sprintf("%d|%d", c.ID, assumedKey(st.Assumed))
	if v, ok := e.validCache[key]; ok {
		if v {
			e.res.AssertsByGlobal++
			st.Assume(c)
			st.addLemma(c)
			st.Assumed = append(st.Assumed, c)
			return
		}
	} else if e.assertSeen[c.ID] {
		e.res.ValidityQueries++
		r, _ := e.solver.Check(st.Assumed, Not(c), e.cfg.AssertTimeout, false)
		if r == Unknown && e.cfg.EscalateSec > 0 {
			r, _, _ = e.solver.Escalate(st.Assumed, Not(c), e.cfg.EscalateSec, false, nil)
		}
		e.validCache[key] = r == Unsat
		if r == Unsat {
			e.res.AssertsByGlobal++
			st.Assume(c)
			st.addLemma(c)
			st.Assumed = append(st.Assumed, c)
			return
		}
	}
	e.assertSeen[c.ID] = true
	e.res.AssertQueries++
	r, m := e.solver.CheckBase(st.PC, Not(c), e.cfg.AssertTimeout, true, e.modelOf(st))
	by := "live"
	if r == Unknown && e.cfg.EscalateSec > 0 {
		r, m, by = e.solver.Escalate(st.PC, Not(c), e.cfg.EscalateSec, true, nil)
	} else if r != Unknown && e.cfg.CrossCheck {
		// (the same conjuncts the live query asserted: after an `unknown`
		// feasibility answer a path condition may be unsatisfiable, and slicing
		// an unsatisfiable path condition changes the answer)
		rel := e.solver.lastRel
		ns := e.solver.NoSlice
		e.solver.NoSlice = true
		r2, _, by2 := e.solver.Escalate(rel, Not(c), e.cfg.EscalateSec, false, []string{"cvc5", "z3-4.8.12"})
		e.solver.NoSlice = ns
		e.solver.Stats.CrossCheck++
		if r2 != Unknown && r2 != r {
			e.solver.Stats.Disagree = append(e.solver.Stats.Disagree, fmt.Sprintf("assert %q: %s=%v vs %s=%v", label, by, r, by2, r2))
			r = Unknown
		}
	}
	switch r {
	case Unsat:
		e.res.AssertsProved++
		// a proved assertion is implied by the path condition: adding it keeps
		// the path condition equivalent and lets later queries use it as a lemma
		st.Assume(c)
		st.addLemma(c)
		if st.NBranch == 0 {
			// proved from the harness assumptions alone
			st.Assumed = append(st.Assumed, c)
		}
	case Sat:
		e.res.AssertsRefuted++
		viol := Violation{Kind: "assert", Label: label, Model: m, Case: e.cfg.Case}
		e.res.addViolation(viol)
		// continue the path under the assumption that the assertion held
		e.assumeChecked(st, c)
	default:
		e.res.Inconclusive = append(e.res.Inconclusive, fmt.Sprintf("assertion %q: solver unknown (%s)", label, by))
		st.Assume(c)
	}
}

// ---------------------------------------------------------------------------
// host formatting

func (e *Engine) hostArgs(st *State, sl Value) ([]interface{}, bool) {
	s := sl.(SliceV)
	els := e.elems(st, s)
	out := make([]interface{}, len(els))
	for i, el := range els {
		iv, ok := el.(IfaceV)
		if !ok {
			return nil, false
		}
		if iv.T == nil {
			out[i] = nil
			continue
		}
		h, ok := e.hostVal(st, iv.T, iv.V)
		if !ok {
			return nil, false
		}
		out[i] = h
	}
	return out, true
}

type opaqueHost string

func (o opaqueHost) String() string { return string(o) }

func (e *Engine) hostVal(st *State, t types.Type, v Value) (interface{}, bool) {
	// types with methods would format through String()/Error(); only plain
	// data is converted
	// (a type whose method set has String/Error/Format/GoString is formatted
	// through that method by fmt, which the host cannot call)
	for _, tt := range []types.Type{t, types.NewPointer(t)} {
		ms := types.NewMethodSet(tt)
		for _, name := range []string{"String", "Error", "Format", "GoString"} {
			if ms.Lookup(nil, name) != nil {
				return nil, false
			}
		}
	}
	if pt, ok := t.(*types.Pointer); ok {
		_ = pt
		return nil, false
	}
	switch x := v.(type) {
	case *Term:
		if !x.IsConst() {
			return nil, false
		}
		b, ok := under(t).(*types.Basic)
		if !ok {
			return nil, false
		}
		switch b.Kind() {
		case types.Bool:
			return x.U != 0, true
		case types.Int:
			return int(x.SVal()), true
		case types.Int8:
			return int8(x.SVal()), true
		case types.Int16:
			return int16(x.SVal()), true
		case types.Int32:
			return int32(x.SVal()), true
		case types.Int64:
			return x.SVal(), true
		case types.Uint:
			return uint(x.U), true
		case types.Uint8:
			return uint8(x.U), true
		case types.Uint16:
			return uint16(x.U), true
		case types.Uint32:
			return uint32(x.U), true
		case types.Uint64:
			return x.U, true
		case types.Uintptr:
			return uintptr(x.U), true
		}
		return nil, false
	case FloatV:
		if x.Sym != nil {
			return nil, false
		}
		if b, ok := under(t).(*types.Basic); ok && b.Kind() == types.Float32 {
			return float32(x.F), true
		}
		return x.F, true
	case StrV:
		s, ok := x.Concrete()
		return s, ok
	case SliceV:
		sl, ok := under(t).(*types.Slice)
		if !ok {
			return nil, false
		}
		if b, ok := under(sl.Elem()).(*types.Basic); ok && b.Kind() == types.Uint8 {
			if x.Obj == 0 {
				return []byte(nil), true
			}
			els := e.elems(st, x)
			out := make([]byte, len(els))
			for i, el := range els {
				t := el.(*Term)
				if !t.IsConst() {
					return nil, false
				}
				out[i] = byte(t.U)
			}
			return out, true
		}
		return nil, false
	}
	return nil, false
}

// ---------------------------------------------------------------------------
// sort.Slice: pdqsort_func from SSA with a native swapper

func nativeSortSlice(e *Engine, st *State, fn *ssa.Function, a []Value) Value {
	iv := a[0].(IfaceV)
	s, ok := iv.V.(SliceV)
	if !ok {
		panic(unsupported("sort.Slice of non-slice"))
	}
	less := a[1]
	swap := FuncV{Native: &NativeFn{Name: "reflectlite.Swapper", Call: func(e *Engine, st *State, args []Value) Value {
		i, j := args[0].(*Term), args[1].(*Term)
		if !i.IsConst() || !j.IsConst() {
			panic(unsupported("symbolic swap indices"))
		}
		if s.Len == 0 {
			return nil
		}
		arr := st.sliceArrW(s)
		x, y := s.Off+int(i.U), s.Off+int(j.U)
		arr.E[x], arr.E[y] = arr.E[y], arr.E[x]
		return nil
	}}}
	sp := e.prog.ImportedPackage("sort")
	if sp == nil {
		panic(unsupported("sort package not loaded"))
	}
	var target *ssa.Function
	name := "pdqsort_func"
	if strings.HasSuffix(fn.Name(), "Stable") {
		name = "stable_func"
	}
	target = sp.Func(name)
	if target == nil {
		panic(unsupported("sort." + name + " not found"))
	}
	ls := &StructV{F: []Value{less, swap}}
	n := s.Len
	limit := 0
	for x := uint(n); x > 0; x >>= 1 {
		limit++
	}
	if name == "stable_func" {
		return tailCall{Fn: FuncV{Fn: target}, Args: []Value{ls, BVC(64, uint64(n))}}
	}
	return tailCall{Fn: FuncV{Fn: target}, Args: []Value{ls, BVC(64, 0), BVC(64, uint64(n)), BVC(64, uint64(limit))}}
}

func assumedKey(a []*Term) uint64 {
	h := uint64(1469598103934665603)
	for _, t := range a {
		h ^= uint64(t.ID)
		h *= 1099511628211
	}
	return h
}
