package main

import (
	"encoding/json"
	"flag"
	"fmt"
	"os"
	"path/filepath"
	"strconv"
	"strings"
)

func defaultConfig() Config {
	return Config{
		Case:          map[string]int{},
		MaxInstrPath:  50_000_000,
		MaxPaths:      200_000,
		MaxSeconds:    600,
		FeasTimeoutMs: 5_000,
		AssertTimeout: 10_000,
		EscalateSec:   60,
		MaxConcretize: 300,
		SpecBudget:    200_000,
	}
}

func parseCase(s string) map[string]int {
	c := map[string]int{}
	if s == "" {
		return c
	}
	for _, kv := range strings.Split(s, ",") {
		p := strings.SplitN(kv, "=", 2)
		n, err := strconv.Atoi(p[1])
		if err != nil {
			panic(err)
		}
		c[p[0]] = n
	}
	return c
}

func verifDir() string {
	if d := os.Getenv("VERIF_DIR"); d != "" {
		return d
	}
	exe, err := os.Executable()
	if err == nil {
		// <verif>/work/bin/gosmt
		d := filepath.Dir(filepath.Dir(filepath.Dir(exe)))
		if _, err := os.Stat(filepath.Join(d, "harness")); err == nil {
			return d
		}
	}
	return "/verif"
}

func repoDir() string {
	if d := os.Getenv("VERIF_REPO"); d != "" {
		return d
	}
	return "/repo"
}

func main() {
	if len(os.Args) < 2 {
		fmt.Fprintln(os.Stderr, "usage: gosmt single|worker|run|replay ...")
		os.Exit(2)
	}
	switch os.Args[1] {
	case "single":
		cmdSingle(os.Args[2:])
	case "worker":
		cmdWorker(os.Args[2:])
	case "run":
		os.Exit(cmdRun(os.Args[2:]))
	case "replay":
		os.Exit(cmdReplay(os.Args[2:]))
	default:
		fmt.Fprintln(os.Stderr, "unknown command", os.Args[1])
		os.Exit(2)
	}
}

func cmdSingle(args []string) {
	fs := flag.NewFlagSet("single", flag.ExitOnError)
	pkg := fs.String("pkg", "", "package dir relative to repo")
	h := fs.String("harness", "", "harness function")
	cs := fs.String("case", "", "k=v,k=v")
	trace := fs.Bool("trace", false, "trace instructions")
	nomerge := fs.Bool("nomerge", false, "disable merging")
	secs := fs.Float64("seconds", 600, "time budget")
	strace := fs.Bool("smt", false, "trace SMT")
	nmi := fs.String("nomergein", "", "comma separated function names")
	fpm := fs.Bool("fp", false, "mix integer-valued symbolic floats with non-integer constants (IEEE terms)")
	live := fs.String("live", "", "live solver")
	cross := fs.Bool("cross", false, "cross-check decided queries and sampled pruning answers on the other solvers")
	fs.Parse(args)
	vd := verifDir()
	work := filepath.Join(vd, "work")
	os.MkdirAll(filepath.Join(work, "tmp"), 0o755)
	ld, err := loadPackage(vd, repoDir(), *pkg, filepath.Join(work, "gen"))
	if err != nil {
		fmt.Fprintln(os.Stderr, "load:", err)
		os.Exit(2)
	}
	cfg := defaultConfig()
	cfg.Case = parseCase(*cs)
	cfg.Trace = *trace
	cfg.NoMerge = *nomerge
	cfg.MaxSeconds = *secs
	traceSMT = *strace
	cfg.FPMixed = *fpm
	cfg.CrossCheck = *cross
	cfg.Live = *live
	cfg.NoMergeIn = map[string]bool{}
	for _, f := range strings.Split(*nmi, ",") {
		if f != "" {
			cfg.NoMergeIn[f] = true
		}
	}
	res := RunUnit(ld, *h, cfg, filepath.Join(work, "tmp"), 0, nil)
	res.Funcs = nil
	b, _ := json.MarshalIndent(res, "", " ")
	fmt.Println(string(b))
}

var traceSMT bool
