package main

func cmdWorker(args []string)     {}
func cmdRun(args []string) int    { return 0 }
func cmdReplay(args []string) int { return 0 }
