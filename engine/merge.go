package main

// Structured merging of symbolic branches at the immediate post-dominator.

import (
	"fmt"
	"os"
	"strings"

	"golang.org/x/tools/go/ssa"
)

type cfgInfo struct {
	ipdom []int          // block index -> immediate post-dominator block index (-1: virtual exit)
	loops []map[int]bool // block index -> set of loop headers whose natural loop contains the block
}

func (e *Engine) cfgOf(fi *fnInfo, fn *ssa.Function) *cfgInfo {
	if fi.cfg != nil {
		return fi.cfg
	}
	n := len(fn.Blocks)
	exit := n
	// post-dominators by the iterative set algorithm on the reversed CFG
	// (functions here are small; n <= a few hundred)
	succs := make([][]int, n+1)
	for _, b := range fn.Blocks {
		if len(b.Succs) == 0 {
			succs[b.Index] = []int{exit}
		}
		for _, s := range b.Succs {
			succs[b.Index] = append(succs[b.Index], s.Index)
		}
	}
	words := (n + 1 + 63) / 64
	pd := make([][]uint64, n+1)
	full := make([]uint64, words)
	for i := 0; i <= n; i++ {
		full[i/64] |= 1 << uint(i%64)
	}
	for i := 0; i <= n; i++ {
		pd[i] = make([]uint64, words)
		if i == exit {
			pd[i][i/64] |= 1 << uint(i%64)
		} else {
			copy(pd[i], full)
		}
	}
	changed := true
	tmp := make([]uint64, words)
	for changed {
		changed = false
		for i := n - 1; i >= 0; i-- {
			if len(succs[i]) == 0 {
				continue
			}
			copy(tmp, full)
			for _, s := range succs[i] {
				for w := range tmp {
					tmp[w] &= pd[s][w]
				}
			}
			tmp[i/64] |= 1 << uint(i%64)
			for w := range tmp {
				if tmp[w] != pd[i][w] {
					changed = true
					pd[i][w] = tmp[w]
				}
			}
		}
	}
	has := func(set []uint64, i int) bool { return set[i/64]&(1<<uint(i%64)) != 0 }
	count := func(set []uint64) int {
		c := 0
		for i := 0; i <= n; i++ {
			if has(set, i) {
				c++
			}
		}
		return c
	}
	ci := &cfgInfo{ipdom: make([]int, n), loops: make([]map[int]bool, n)}
	for i := 0; i < n; i++ {
		// immediate post-dominator: the strict post-dominator with the largest pdom set
		best, bestc := -1, -1
		for j := 0; j <= n; j++ {
			if j != i && has(pd[i], j) {
				c := count(pd[j])
				if c > bestc {
					best, bestc = j, c
				}
			}
		}
		if best == exit {
			best = -1
		}
		ci.ipdom[i] = best
	}
	// natural loops from back edges u -> h where h dominates u
	for i := range ci.loops {
		ci.loops[i] = map[int]bool{}
	}
	for _, u := range fn.Blocks {
		for _, h := range u.Succs {
			if h.Dominates(u) {
				// collect the loop body
				body := map[int]bool{h.Index: true}
				stack := []*ssa.BasicBlock{u}
				for len(stack) > 0 {
					b := stack[len(stack)-1]
					stack = stack[:len(stack)-1]
					if body[b.Index] {
						continue
					}
					body[b.Index] = true
					for _, p := range b.Preds {
						stack = append(stack, p)
					}
				}
				for bi := range body {
					ci.loops[bi][h.Index] = true
				}
			}
		}
	}
	fi.cfg = ci
	return ci
}

// tryMerge attempts to execute both sides of the branch and merge the
// resulting states at the post-dominator. On success st has been advanced to
// the merged state.
func (e *Engine) tryMerge(st *State, fr *Frame, x *ssa.If, c *Term, mT, mF Model) (ok bool) {
	if ms := e.mergeStat[x]; ms != nil && ms.fail >= 4 && ms.fail > 8*ms.ok {
		return false // this branch practically never merges: fork directly
	}
	if len(e.cfg.NoMergeIn) > 0 {
		name := fr.Fn.Name()
		if i := strings.IndexByte(name, '['); i >= 0 {
			name = name[:i]
		}
		if e.cfg.NoMergeIn[name] {
			return false
		}
	}
	ci := e.cfgOf(fr.Info, fr.Fn)
	bi := fr.Block.Index
	j := ci.ipdom[bi]
	// not a loop exit: every loop containing the branch must contain J
	for h := range ci.loops[bi] {
		if j < 0 || !ci.loops[j][h] {
			return false
		}
	}
	if fr.Block.Index == j {
		return false
	}
	var J *ssa.BasicBlock
	if j >= 0 {
		J = fr.Fn.Blocks[j]
	}
	depth := len(st.Frames)
	if depth <= 1 && J == nil {
		return false // returning from the harness ends the path
	}
	budget := e.cfg.SpecBudget
	if st.Spec != nil && st.Spec.Budget < budget {
		budget = st.Spec.Budget
	}
	var sides [2]*State
	func() {
		defer func() {
			if r := recover(); r != nil {
				if _, isAbort := r.(abortSpec); isAbort {
					ok = false
					sides[0] = nil
					return
				}
				panic(r)
			}
		}()
		for k := 0; k < 2; k++ {
			s := st.Clone()
			cond := c
			if k == 1 {
				cond = Not(c)
			}
			s.Assume(cond)
			// the side's model: the original model if it satisfies the side's
			// condition (Assume drops it otherwise)
			_ = mT
			_ = mF
			s.Spec = &Spec{Depth: depth, J: J, Outer: st.Spec, Budget: budget}
			e.jump(s, s.top(), fr.Block.Succs[k])
			if !e.run(s) {
				panic(abortSpec{"path ended inside speculation"})
			}
			budget = s.Spec.Budget
			sides[k] = s
		}
	}()
	if sides[0] == nil || sides[1] == nil {
		e.res.MergeFails++
		e.noteMerge(x, false)
		return false
	}
	m, mok := e.mergeStates(st, sides[0], sides[1], c, depth)
	if !mok {
		e.res.MergeFails++
		e.noteMerge(x, false)
		return false
	}
	e.noteMerge(x, true)
	used := e.cfg.SpecBudget - budget
	_ = used
	if st.Spec != nil {
		st.Spec.Budget = budget
	}
	outer := st.Spec
	*st = *m
	st.Spec = outer
	e.res.Merges++
	return true
}

func (e *Engine) mergeStates(orig, a, b *State, c *Term, depth int) (*State, bool) {
	if len(a.Frames) != len(b.Frames) {
		return nil, false
	}
	returned := len(a.Frames) < depth
	if !returned && len(a.Frames) != depth {
		return nil, false
	}
	m := a // reuse a as the merged state
	// frames: only the top frame can differ observably
	fa, fb := a.top(), b.top()
	if fa.Fn != fb.Fn || fa.Block != fb.Block || fa.IP != fb.IP || len(fa.Defers) != len(fb.Defers) {
		return nil, false
	}
	for i := range a.Frames[:len(a.Frames)-1] {
		if len(a.Frames[i].Defers) != len(b.Frames[i].Defers) {
			return nil, false
		}
	}
	if returned {
		// the merge frame returned into its caller: the call's register differs
		for i := range fa.Env {
			if !valIdentical(fa.Env[i], fb.Env[i]) {
				v, ok := mergeVal(c, fa.Env[i], fb.Env[i])
				if !ok {
					return nil, false
				}
				fa.Env[i] = v
			}
		}
	} else {
		np := fa.Info.firstNonPhi[fa.Block.Index]
		for k := 0; k < np; k++ {
			ri := fa.Info.idx[fa.Block.Instrs[k].(*ssa.Phi)]
			if !valIdentical(fa.Env[ri], fb.Env[ri]) {
				v, ok := mergeVal(c, fa.Env[ri], fb.Env[ri])
				if !ok {
					return nil, false
				}
				fa.Env[ri] = v
			}
		}
		fa.Prev = nil
	}
	// heap
	if len(a.Heap) != len(b.Heap) {
		// objects allocated by one side only beyond the common prefix: keep
		// them (unreachable from the other side); shapes of shared ids must match
	}
	n := len(a.Heap)
	if len(b.Heap) > n {
		n = len(b.Heap)
	}
	heap := make([]*ObjData, n)
	ep := newEpoch()
	for i := 1; i < n; i++ {
		var oa, ob *ObjData
		if i < len(a.Heap) {
			oa = a.Heap[i]
		}
		if i < len(b.Heap) {
			ob = b.Heap[i]
		}
		switch {
		case oa == nil:
			heap[i] = ob
		case ob == nil:
			heap[i] = oa
		case oa == ob:
			heap[i] = oa
		default:
			mo, ok := mergeObj(c, oa, ob, ep)
			if !ok {
				return nil, false
			}
			heap[i] = mo
		}
	}
	m.Heap = heap
	m.Epoch = ep
	// globals
	if len(b.Globals) != len(a.Globals) {
		g := map[*ssa.Global]int{}
		for k, v := range a.Globals {
			g[k] = v
		}
		for k, v := range b.Globals {
			if w, ok := g[k]; ok && w != v {
				return nil, false
			}
			g[k] = v
		}
		m.Globals = g
		m.globOwned = true
	} else {
		for k, v := range b.Globals {
			if a.Globals[k] != v {
				return nil, false
			}
		}
	}
	if len(a.Log) != len(orig.Log) || len(b.Log) != len(orig.Log) {
		return nil, false
	}
	m.PC = orig.PC[:len(orig.PC):len(orig.PC)]
	m.Facts = orig.Facts
	m.factsOwned = false
	orig.factsOwned = false
	m.NInstr = a.NInstr + b.NInstr - orig.NInstr
	m.Model = orig.Model
	if m.Model == nil {
		m.Model = a.Model
	}
	m.Panicking = nil
	m.OrderPick = orig.OrderPick
	if a.OrderPick != orig.OrderPick || b.OrderPick != orig.OrderPick {
		return nil, false
	}
	return m, true
}

func mergeObj(c *Term, a, b *ObjData, ep int) (*ObjData, bool) {
	r := &ObjData{Epoch: ep, T: a.T}
	if (a.M == nil) != (b.M == nil) || (a.It == nil) != (b.It == nil) {
		return nil, false
	}
	if a.M != nil {
		if len(a.M.Keys) != len(b.M.Keys) || a.M.NSym != b.M.NSym {
			return nil, false
		}
		md := &MapData{KeyT: a.M.KeyT, ValT: a.M.ValT, NSym: a.M.NSym, Index: a.M.Index}
		md.Keys = a.M.Keys
		md.Vals = make([]Value, len(a.M.Vals))
		for i := range a.M.Keys {
			if !valIdentical(a.M.Keys[i], b.M.Keys[i]) {
				return nil, false
			}
			v, ok := mergeVal(c, a.M.Vals[i], b.M.Vals[i])
			if !ok {
				return nil, false
			}
			md.Vals[i] = v
		}
		// the index map is shared read-only between a and the merged object;
		// copy to keep ownership simple
		idx := make(map[string]int, len(a.M.Index))
		for k, v := range a.M.Index {
			idx[k] = v
		}
		md.Index = idx
		r.M = md
		return r, true
	}
	if a.It != nil {
		if a.It.Pos != b.It.Pos || a.It.IsMap != b.It.IsMap || len(a.It.Keys) != len(b.It.Keys) {
			return nil, false
		}
		for i := range a.It.Keys {
			if !valIdentical(a.It.Keys[i], b.It.Keys[i]) || !valIdentical(a.It.Vals[i], b.It.Vals[i]) {
				return nil, false
			}
		}
		it := *a.It
		r.It = &it
		return r, true
	}
	v, ok := mergeVal(c, a.V, b.V)
	if !ok {
		return nil, false
	}
	// mergeVal may return one of its (shared) arguments: objects own their trees
	if v == a.V || v == b.V {
		v = copyVal(v)
	}
	r.V = v
	return r, true
}

type mergeStat struct{ ok, fail int }

func (e *Engine) noteMerge(x *ssa.If, ok bool) {
	if e.mergeStat == nil {
		e.mergeStat = map[*ssa.If]*mergeStat{}
	}
	ms := e.mergeStat[x]
	if ms == nil {
		ms = &mergeStat{}
		e.mergeStat[x] = ms
	}
	if ok {
		ms.ok++
	} else {
		ms.fail++
		if os.Getenv("VP_MERGELOG") != "" {
			fmt.Fprintf(os.Stderr, "MERGEFAIL %s %s\n", x.Parent(), e.prog.Fset.Position(x.Pos()))
		}
	}
}
