package main

import (
	"fmt"
	"os"
	"path/filepath"
	"regexp"
	"sort"
	"strings"

	"golang.org/x/tools/go/packages"
	"golang.org/x/tools/go/ssa"
	"golang.org/x/tools/go/ssa/ssautil"
)

type Loaded struct {
	prog    *ssa.Program
	pkg     *ssa.Package
	infos   map[*ssa.Function]*fnInfo
	prelude *State
	overlay map[string]string // virtual path -> real file (for native replay)
	names   []string          // harness entry points
}

var harnessFuncRe = regexp.MustCompile(`(?m)^func (VP_\w+)\(\)`)

// genOverlay writes the generated runtime/harness files for pkgDir (relative
// to the repository root, e.g. "formats/fasta") under genDir and returns the
// overlay map virtual -> real, split in non-test and test files.
func genOverlay(verifDir, repoDir, pkgDir, genDir string) (src map[string]string, test map[string]string, names []string, err error) {
	src, test = map[string]string{}, map[string]string{}
	pkgName, err := packageName(filepath.Join(repoDir, pkgDir))
	if err != nil {
		return nil, nil, nil, err
	}
	out := filepath.Join(genDir, strings.ReplaceAll(pkgDir, "/", "_"))
	if err := os.MkdirAll(out, 0o755); err != nil {
		return nil, nil, nil, err
	}
	subst := func(b []byte) []byte {
		return []byte(strings.Replace(string(b), "package PKG", "package "+pkgName, 1))
	}
	emit := func(name string, content []byte, isTest bool) error {
		real := filepath.Join(out, name)
		if old, err := os.ReadFile(real); err != nil || string(old) != string(content) {
			// atomic replace: several worker processes generate the same files
			tmp := fmt.Sprintf("%s.%d.tmp", real, os.Getpid())
			if err := os.WriteFile(tmp, content, 0o644); err != nil {
				return err
			}
			if err := os.Rename(tmp, real); err != nil {
				return err
			}
		}
		virt := filepath.Join(repoDir, pkgDir, name)
		if isTest {
			test[virt] = real
		} else {
			src[virt] = real
		}
		return nil
	}
	common := filepath.Join(verifDir, "harness", "common")
	rt, err := os.ReadFile(filepath.Join(common, "vp_runtime.go.tmpl"))
	if err != nil {
		return nil, nil, nil, err
	}
	if err := emit("zz_vp_runtime.go", subst(rt), false); err != nil {
		return nil, nil, nil, err
	}
	// shared templates: harness/common/shared_*.go.tmpl, for the packages named
	// in their "//vp:packages" line
	if shared, _ := filepath.Glob(filepath.Join(common, "shared_*.go.tmpl")); len(shared) > 0 {
		for _, sf := range shared {
			b, err := os.ReadFile(sf)
			if err != nil {
				return nil, nil, nil, err
			}
			use := false
			for _, l := range strings.Split(string(b), "\n") {
				if strings.HasPrefix(l, "//vp:packages") {
					for _, pk := range strings.Fields(l)[1:] {
						if pk == pkgDir {
							use = true
						}
					}
				}
			}
			if !use {
				continue
			}
			for _, m := range harnessFuncRe.FindAllSubmatch(b, -1) {
				names = append(names, string(m[1]))
			}
			base := strings.TrimSuffix(filepath.Base(sf), ".tmpl")
			if err := emit("zz_vp_"+base, subst(b), false); err != nil {
				return nil, nil, nil, err
			}
		}
	}
	hdir := filepath.Join(verifDir, "harness", pkgDir)
	ents, _ := os.ReadDir(hdir)
	for _, en := range ents {
		if en.IsDir() || !strings.HasSuffix(en.Name(), ".go") {
			continue
		}
		b, err := os.ReadFile(filepath.Join(hdir, en.Name()))
		if err != nil {
			return nil, nil, nil, err
		}
		for _, m := range harnessFuncRe.FindAllSubmatch(b, -1) {
			names = append(names, string(m[1]))
		}
		if err := emit("zz_vp_"+en.Name(), b, strings.HasSuffix(en.Name(), "_test.go")); err != nil {
			return nil, nil, nil, err
		}
	}
	sort.Strings(names)
	tt, err := os.ReadFile(filepath.Join(common, "vp_replay_test.go.tmpl"))
	if err != nil {
		return nil, nil, nil, err
	}
	var reg strings.Builder
	for _, n := range names {
		fmt.Fprintf(&reg, "\t%q: %s,\n", n, n)
	}
	ts := strings.Replace(string(subst(tt)), "//HARNESSES//", reg.String(), 1)
	if err := emit("zz_vp_replay_test.go", []byte(ts), true); err != nil {
		return nil, nil, nil, err
	}
	return src, test, names, nil
}

func packageName(dir string) (string, error) {
	ents, err := os.ReadDir(dir)
	if err != nil {
		return "", err
	}
	re := regexp.MustCompile(`(?m)^package (\w+)`)
	for _, en := range ents {
		if strings.HasSuffix(en.Name(), ".go") && !strings.HasSuffix(en.Name(), "_test.go") {
			b, err := os.ReadFile(filepath.Join(dir, en.Name()))
			if err != nil {
				return "", err
			}
			if m := re.FindSubmatch(b); m != nil {
				return string(m[1]), nil
			}
		}
	}
	return "", fmt.Errorf("no Go package in %s", dir)
}

func loadPackage(verifDir, repoDir, pkgDir, genDir string) (*Loaded, error) {
	src, test, names, err := genOverlay(verifDir, repoDir, pkgDir, genDir)
	if err != nil {
		return nil, err
	}
	ov := map[string][]byte{}
	for virt, real := range src {
		b, err := os.ReadFile(real)
		if err != nil {
			return nil, err
		}
		ov[virt] = b
	}
	cfg := &packages.Config{
		Mode:    packages.LoadAllSyntax,
		Dir:     repoDir,
		Overlay: ov,
		Env:     append(os.Environ(), "GOFLAGS=-mod=mod", "GOPROXY=off", "GOSUMDB=off", "GOTOOLCHAIN=local"),
	}
	pkgs, err := packages.Load(cfg, "./"+pkgDir)
	if err != nil {
		return nil, err
	}
	if len(pkgs) != 1 {
		return nil, fmt.Errorf("expected one package, got %d", len(pkgs))
	}
	var errs []string
	packages.Visit(pkgs, nil, func(p *packages.Package) {
		for _, e := range p.Errors {
			errs = append(errs, e.Error())
		}
	})
	if len(errs) > 0 {
		return nil, fmt.Errorf("load errors: %s", strings.Join(errs, "; "))
	}
	prog, spkgs := ssautil.AllPackages(pkgs, ssa.InstantiateGenerics)
	if spkgs[0] == nil {
		return nil, fmt.Errorf("no SSA package")
	}
	spkgs[0].Build()
	all := map[string]string{}
	for k, v := range src {
		all[k] = v
	}
	for k, v := range test {
		all[k] = v
	}
	return &Loaded{prog: prog, pkg: spkgs[0], infos: map[*ssa.Function]*fnInfo{}, overlay: all, names: names}, nil
}
