package main

import (
	"fmt"
	"go/token"
	"go/types"
	"math"
	"unicode/utf8"

	"golang.org/x/tools/go/ssa"
)

// ---------------------------------------------------------------------------
// equality of values as a term

func (e *Engine) eqVal(a, b Value) *Term {
	switch x := a.(type) {
	case *Term:
		return Eq(x, b.(*Term))
	case FloatV:
		y := b.(FloatV)
		if x.FP != nil || y.FP != nil {
			return FEq(x.asFP(), y.asFP())
		}
		if x.Sym == nil && y.Sym == nil {
			return BoolC(x.F == y.F)
		}
		xi, _, ok1 := x.asInt()
		yi, _, ok2 := y.asInt()
		if !ok1 || !ok2 {
			// a symbolic exact-int float can never equal a non-integer
			// constant (NaN, fractions, infinities)
			return FalseT
		}
		return Eq(xi, yi)
	case StrV:
		y := b.(StrV)
		if len(x.B) != len(y.B) {
			return FalseT
		}
		cs := make([]*Term, len(x.B))
		for i := range x.B {
			cs[i] = Eq(x.B[i], y.B[i])
			if cs[i].IsFalse() {
				return FalseT
			}
		}
		return And(cs...)
	case PtrV:
		y := b.(PtrV)
		if x.Obj != y.Obj || len(x.Path) != len(y.Path) {
			return FalseT
		}
		var cs []*Term
		for i := range x.Path {
			p, q := x.Path[i], y.Path[i]
			switch {
			case p.Sym == nil && q.Sym == nil:
				if p.I != q.I {
					return FalseT
				}
			case p.Sym != nil && q.Sym != nil:
				cs = append(cs, Eq(p.Sym, q.Sym))
			case p.Sym != nil:
				cs = append(cs, Eq(p.Sym, BVC(64, uint64(q.I))))
			default:
				cs = append(cs, Eq(q.Sym, BVC(64, uint64(p.I))))
			}
		}
		return And(cs...)
	case IfaceV:
		y := b.(IfaceV)
		if x.T == nil || y.T == nil {
			return BoolC(x.T == nil && y.T == nil)
		}
		if !types.Identical(x.T, y.T) {
			return FalseT
		}
		return e.eqVal(x.V, y.V)
	case SliceV:
		y := b.(SliceV)
		if x.Obj == 0 || y.Obj == 0 {
			return BoolC(x.Obj == 0 && y.Obj == 0)
		}
		panic(unsupported("slice comparison"))
	case MapV:
		y := b.(MapV)
		if x.Obj == 0 || y.Obj == 0 {
			return BoolC(x.Obj == 0 && y.Obj == 0)
		}
		panic(unsupported("map comparison"))
	case FuncV:
		y := b.(FuncV)
		if x.IsNil() || y.IsNil() {
			return BoolC(x.IsNil() && y.IsNil())
		}
		panic(unsupported("func comparison"))
	case *StructV:
		y := b.(*StructV)
		cs := make([]*Term, len(x.F))
		for i := range x.F {
			cs[i] = e.eqVal(x.F[i], y.F[i])
		}
		return And(cs...)
	case *ArrayV:
		y := b.(*ArrayV)
		cs := make([]*Term, len(x.E))
		for i := range x.E {
			cs[i] = e.eqVal(x.E[i], y.E[i])
		}
		return And(cs...)
	}
	panic(unsupported(fmt.Sprintf("equality on %T", a)))
}

// strLess builds the term a < b (lexicographic, bytewise).
func strLess(a, b StrV, orEq bool) *Term {
	n := len(a.B)
	if len(b.B) < n {
		n = len(b.B)
	}
	// result if the common prefix is equal
	var tail *Term
	if orEq {
		tail = BoolC(len(a.B) <= len(b.B))
	} else {
		tail = BoolC(len(a.B) < len(b.B))
	}
	res := tail
	for i := n - 1; i >= 0; i-- {
		res = Ite(Eq(a.B[i], b.B[i]), res, ULt(a.B[i], b.B[i]))
	}
	return res
}

// ---------------------------------------------------------------------------
// binary / unary operators

func (e *Engine) binop(st *State, op token.Token, xt types.Type, a, b Value, yt types.Type) Value {
	switch x := a.(type) {
	case *Term:
		y, _ := b.(*Term)
		if x.S.K == SBool {
			switch op {
			case token.EQL:
				return Eq(x, y)
			case token.NEQ:
				return Neq(x, y)
			case token.AND, token.LAND:
				return And(x, y)
			case token.OR, token.LOR:
				return Or(x, y)
			}
			panic(unsupported("bool op " + op.String()))
		}
		w, signed, _ := intInfo(xt)
		switch op {
		case token.ADD:
			return BVAdd(x, y)
		case token.SUB:
			return BVSub(x, y)
		case token.MUL:
			return BVMul(x, y)
		case token.QUO, token.REM:
			if !e.decide(st, Neq(y, BVC(w, 0))) {
				e.goPanic(st, "runtime error: integer divide by zero")
			}
			if signed {
				if op == token.QUO {
					return BVSDiv(x, y)
				}
				return BVSRem(x, y)
			}
			if op == token.QUO {
				return BVUDiv(x, y)
			}
			return BVURem(x, y)
		case token.AND:
			return BVAnd(x, y)
		case token.OR:
			return BVOr(x, y)
		case token.XOR:
			return BVXor(x, y)
		case token.AND_NOT:
			return BVAnd(x, BVNot(y))
		case token.SHL, token.SHR:
			yw, ysigned, _ := intInfo(yt)
			if ysigned {
				if !e.decide(st, SLe(BVC(yw, 0), y)) {
					e.goPanic(st, "runtime error: negative shift amount")
				}
			}
			n := Resize(y, 64, false)
			if yw > 64 {
				panic("shift width")
			}
			big := ULe(BVC(64, uint64(w)), n)
			cnt := Resize(n, w, false)
			if w > 64 {
				panic("width")
			}
			if op == token.SHL {
				return Ite(big, BVC(w, 0), BVShl(x, cnt))
			}
			if signed {
				return Ite(big, BVAShr(x, BVC(w, uint64(w-1))), BVAShr(x, cnt))
			}
			return Ite(big, BVC(w, 0), BVLShr(x, cnt))
		case token.EQL:
			return Eq(x, y)
		case token.NEQ:
			return Neq(x, y)
		case token.LSS:
			if signed {
				return SLt(x, y)
			}
			return ULt(x, y)
		case token.LEQ:
			if signed {
				return SLe(x, y)
			}
			return ULe(x, y)
		case token.GTR:
			if signed {
				return SLt(y, x)
			}
			return ULt(y, x)
		case token.GEQ:
			if signed {
				return SLe(y, x)
			}
			return ULe(y, x)
		}
		panic(unsupported("int op " + op.String()))
	case FloatV:
		r := e.floatOp(op, x, b.(FloatV))
		if rf, ok := r.(FloatV); ok {
			if bt, ok := under(xt).(*types.Basic); ok && bt.Kind() == types.Float32 {
				// float32 arithmetic: the exact (or binary64) result rounded to
				// float32; for + - * / of float32 operands rounding the
				// binary64 result again is the correctly rounded float32 result
				// (binary64 has more than 2*24+2 significand bits)
				return round32(rf)
			}
		}
		return r
	case StrV:
		y := b.(StrV)
		switch op {
		case token.ADD:
			r := make([]*Term, 0, len(x.B)+len(y.B))
			r = append(r, x.B...)
			r = append(r, y.B...)
			return StrV{r}
		case token.EQL:
			return e.eqVal(x, y)
		case token.NEQ:
			return Not(e.eqVal(x, y))
		case token.LSS:
			return strLess(x, y, false)
		case token.LEQ:
			return strLess(x, y, true)
		case token.GTR:
			return strLess(y, x, false)
		case token.GEQ:
			return strLess(y, x, true)
		}
		panic(unsupported("string op " + op.String()))
	}
	switch op {
	case token.EQL:
		return e.eqVal(a, b)
	case token.NEQ:
		return Not(e.eqVal(a, b))
	}
	panic(unsupported(fmt.Sprintf("binop %s on %T", op, a)))
}

// round32 is float64(float32(x)) (a float32 is kept as the float64 it converts
// to exactly). An integer of magnitude < 2^24 is exact in float32; a larger
// exact-int value is rounded to the nearest multiple of 2^s (ties to even)
// where 2^(23+s) <= |x| < 2^(24+s), in integer arithmetic.
func round32(x FloatV) FloatV {
	if x.FP != nil {
		return FloatV{FP: FRound32(x.FP)}
	}
	if x.Sym == nil {
		return concFloat(float64(float32(x.F)))
	}
	if x.Mag < 1<<24 {
		return x
	}
	if fpMixed {
		return FloatV{FP: FRound32(x.asFP())}
	}
	neg := ILt(x.Sym, IntC(0))
	ax := Ite(neg, INeg(x.Sym), x.Sym)
	res := ax // |x| < 2^24
	var cases []*Term
	var bounds []int64
	top := int64(1) << 24
	for s := uint(1); float64(top) <= x.Mag; s++ {
		d := int64(1) << s
		half := d / 2
		r := IMod(ax, d)
		odd := ILe(IntC(d), IMod(ax, 2*d))
		up := Or(ILt(IntC(half), r), And(Eq(r, IntC(half)), odd))
		cases = append(cases, IAdd(ISub(ax, r), Ite(up, IntC(d), IntC(0))))
		bounds = append(bounds, top)
		top <<= 1
	}
	for i := len(cases) - 1; i >= 0; i-- {
		if i == len(cases)-1 {
			res = cases[i]
		} else {
			res = Ite(ILt(ax, IntC(bounds[i+1])), cases[i], res)
		}
	}
	if len(cases) > 0 {
		res = Ite(ILt(ax, IntC(bounds[0])), ax, res)
	}
	return FloatV{Sym: Ite(neg, INeg(res), res), Mag: float64(top)}
}

func (e *Engine) floatOp(op token.Token, x, y FloatV) Value {
	if x.FP != nil || y.FP != nil {
		// general symbolic float64: IEEE terms, round to nearest even
		a, b := x.asFP(), y.asFP()
		fv := func(t *Term) Value {
			if t.IsConst() {
				return concFloat(t.FVal())
			}
			return FloatV{FP: t}
		}
		switch op {
		case token.ADD:
			return fv(FAdd(a, b))
		case token.SUB:
			return fv(FSub(a, b))
		case token.MUL:
			return fv(FMul(a, b))
		case token.QUO:
			return fv(FDiv(a, b))
		case token.EQL:
			return FEq(a, b)
		case token.NEQ:
			return Not(FEq(a, b))
		case token.LSS:
			return FLt(a, b)
		case token.LEQ:
			return FLe(a, b)
		case token.GTR:
			return FLt(b, a)
		case token.GEQ:
			return FLe(b, a)
		}
		panic(unsupported("float op " + op.String()))
	}
	if x.Sym == nil && y.Sym == nil {
		switch op {
		case token.ADD:
			return concFloat(x.F + y.F)
		case token.SUB:
			return concFloat(x.F - y.F)
		case token.MUL:
			return concFloat(x.F * y.F)
		case token.QUO:
			return concFloat(x.F / y.F)
		case token.EQL:
			return BoolC(x.F == y.F)
		case token.NEQ:
			return BoolC(x.F != y.F)
		case token.LSS:
			return BoolC(x.F < y.F)
		case token.LEQ:
			return BoolC(x.F <= y.F)
		case token.GTR:
			return BoolC(x.F > y.F)
		case token.GEQ:
			return BoolC(x.F >= y.F)
		}
		panic(unsupported("float op " + op.String()))
	}
	xi, xm, ok1 := x.asInt()
	yi, ym, ok2 := y.asInt()
	if !ok1 || !ok2 {
		// comparisons of an exact-int symbolic float with a concrete
		// non-integer: decidable for NaN/Inf, otherwise refuse
		c := x
		symLeft := false
		if x.Sym != nil {
			c = y
			symLeft = true
		}
		if c.F != c.F { // NaN
			switch op {
			case token.EQL, token.LSS, token.LEQ, token.GTR, token.GEQ:
				return FalseT
			case token.NEQ:
				return TrueT
			}
		}
		if math.IsInf(c.F, 0) {
			pos := c.F > 0
			// sym OP inf
			lt := pos // sym < +inf is true; sym < -inf false
			if !symLeft {
				lt = !pos // inf < sym
			}
			switch op {
			case token.EQL:
				return FalseT
			case token.NEQ:
				return TrueT
			case token.LSS, token.LEQ:
				return BoolC(lt)
			case token.GTR, token.GEQ:
				return BoolC(!lt)
			}
		}
		if fpMixed {
			return e.floatOp(op, FloatV{FP: x.asFP()}, FloatV{FP: y.asFP()})
		}
		panic(unsupported("exact-int float combined with a non-integer float"))
	}
	mag := xm + ym
	if mag >= (1 << 52) {
		panic(unsupported("exact-int float magnitude exceeds 2^52"))
	}
	switch op {
	case token.MUL, token.QUO:
		if fpMixed {
			return e.floatOp(op, FloatV{FP: x.asFP()}, FloatV{FP: y.asFP()})
		}
	}
	switch op {
	case token.ADD:
		return FloatV{Sym: IAdd(xi, yi), Mag: mag}
	case token.SUB:
		return FloatV{Sym: ISub(xi, yi), Mag: mag}
	case token.EQL:
		return Eq(xi, yi)
	case token.NEQ:
		return Neq(xi, yi)
	case token.LSS:
		return ILt(xi, yi)
	case token.LEQ:
		return ILe(xi, yi)
	case token.GTR:
		return ILt(yi, xi)
	case token.GEQ:
		return ILe(yi, xi)
	}
	panic(unsupported("symbolic float op " + op.String()))
}

func (e *Engine) unop(st *State, x *ssa.UnOp, a Value) Value {
	switch x.Op {
	case token.MUL:
		p := a.(PtrV)
		if p.Obj == 0 {
			e.goPanic(st, "runtime error: invalid memory address or nil pointer dereference")
		}
		for {
			if v, ok := st.tryLoad(p); ok {
				return v
			}
			// fork over the values of the first symbolic index
			np := PtrV{Obj: p.Obj, Path: append([]PathElem(nil), p.Path...)}
			for i, pe := range np.Path {
				if pe.Sym != nil {
					v := e.concretize(st, pe.Sym, "index into non-mergeable cells")
					np.Path[i] = PathElem{I: int(v)}
					break
				}
			}
			p = np
		}
	case token.NOT:
		return Not(a.(*Term))
	case token.SUB:
		switch v := a.(type) {
		case *Term:
			return BVNeg(v)
		case FloatV:
			if v.FP != nil {
				return FloatV{FP: FNeg(v.FP)}
			}
			if v.Sym == nil {
				return concFloat(-v.F)
			}
			return FloatV{Sym: INeg(v.Sym), Mag: v.Mag}
		}
	case token.XOR:
		return BVNot(a.(*Term))
	}
	panic(unsupported("unop " + x.Op.String()))
}

// ---------------------------------------------------------------------------
// conversions

func (e *Engine) convert(st *State, from, to types.Type, v Value) Value {
	uf, ut := under(from), under(to)
	switch x := v.(type) {
	case *Term:
		fw, fsigned, fok := intInfo(uf)
		if !fok {
			if isBool(uf) && isBool(ut) {
				return x
			}
			panic(unsupported(fmt.Sprintf("convert %s -> %s", from, to)))
		}
		if tw, _, ok := intInfo(ut); ok {
			_ = fw
			return Resize(x, tw, fsigned)
		}
		if isFloat(ut) {
			if x.IsConst() {
				if fsigned {
					return concFloat(float64(x.SVal()))
				}
				return concFloat(float64(x.U))
			}
			if fw <= 32 || true {
				// exact-int float from a symbolic integer; magnitude bound from width
				lo, hi := urange(x)
				_ = lo
				if fsigned {
					if fw <= 32 {
						return FloatV{Sym: BV2Int(x), Mag: float64(uint64(1) << uint(fw-1))}
					}
				} else if hi < (1 << 52) {
					return FloatV{Sym: BV2Int(ZExt(x, 1)), Mag: float64(hi)}
				}
			}
			// a wide symbolic integer: the conversion rounds, IEEE term
			if fsigned {
				return FloatV{FP: FFromSBV(x)}
			}
			return FloatV{FP: FFromSBV(ZExt(x, 1))}
		}
		if isString(ut) {
			// string(rune)
			r := Resize(x, 32, fsigned)
			if r.IsConst() {
				return concStr(string(rune(int32(r.U))))
			}
			if e.decide(st, ULt(r, BVC(32, 0x80))) {
				return StrV{[]*Term{Extract(r, 7, 0)}}
			}
			if e.decide(st, ULt(r, BVC(32, 0x800))) {
				b0 := BVOr(BVC(8, 0xC0), Extract(BVLShr(r, BVC(32, 6)), 7, 0))
				b1 := BVOr(BVC(8, 0x80), BVAnd(Extract(r, 7, 0), BVC(8, 0x3f)))
				return StrV{[]*Term{b0, b1}}
			}
			sh := func(n uint64) *Term { return Extract(BVLShr(r, BVC(32, n)), 7, 0) }
			cont := func(n uint64) *Term { return BVOr(BVC(8, 0x80), BVAnd(sh(n), BVC(8, 0x3f))) }
			repl := StrV{[]*Term{BVC(8, 0xEF), BVC(8, 0xBF), BVC(8, 0xBD)}}
			if e.decide(st, ULt(r, BVC(32, 0x10000))) {
				if e.decide(st, And(ULe(BVC(32, 0xD800), r), ULe(r, BVC(32, 0xDFFF)))) {
					return repl // surrogate half
				}
				return StrV{[]*Term{BVOr(BVC(8, 0xE0), sh(12)), cont(6), cont(0)}}
			}
			if e.decide(st, ULe(r, BVC(32, 0x10FFFF))) {
				return StrV{[]*Term{BVOr(BVC(8, 0xF0), sh(18)), cont(12), cont(6), cont(0)}}
			}
			return repl
		}
		if _, ok := ut.(*types.Basic); ok && ut.(*types.Basic).Kind() == types.UnsafePointer {
			panic(unsupported("uintptr -> unsafe.Pointer"))
		}
	case FloatV:
		if isFloat(ut) {
			if b := ut.(*types.Basic); b.Kind() == types.Float32 {
				return round32(x)
			}
			return x
		}
		if tw, tsigned, ok := intInfo(ut); ok {
			if x.Sym != nil || x.FP != nil {
				panic(unsupported("int of symbolic float"))
			}
			if tsigned {
				return BVC(tw, uint64(int64(x.F)))
			}
			return BVC(tw, uint64(x.F))
		}
	case StrV:
		if isString(ut) {
			return x
		}
		if sl, ok := ut.(*types.Slice); ok {
			if b, ok := under(sl.Elem()).(*types.Basic); ok && b.Kind() == types.Uint8 {
				s := e.newSlice(st, sl.Elem(), len(x.B), len(x.B))
				if len(x.B) > 0 {
					arr := st.sliceArrW(s)
					for i, t := range x.B {
						arr.E[i] = t
					}
				}
				return s
			}
			if b, ok := under(sl.Elem()).(*types.Basic); ok && b.Kind() == types.Int32 {
				cs, ok := x.Concrete()
				if !ok {
					panic(unsupported("[]rune of symbolic string"))
				}
				rs := []rune(cs)
				s := e.newSlice(st, sl.Elem(), len(rs), len(rs))
				if len(rs) > 0 {
					arr := st.sliceArrW(s)
					for i, r := range rs {
						arr.E[i] = BVC(32, uint64(r))
					}
				}
				return s
			}
		}
	case SliceV:
		if isString(ut) {
			if x.Len == 0 {
				return StrV{}
			}
			arr := st.sliceArrR(x)
			b := make([]*Term, x.Len)
			for i := 0; i < x.Len; i++ {
				t, ok := arr.E[x.Off+i].(*Term)
				if !ok || t.S.W != 8 {
					panic(unsupported("string([]rune)"))
				}
				b[i] = t
			}
			return StrV{b}
		}
		return x
	case PtrV:
		return x
	}
	panic(unsupported(fmt.Sprintf("convert %s -> %s (%T)", from, to, v)))
}

// ---------------------------------------------------------------------------
// indexing

// idx64 converts an index operand to a 64-bit term (sign- or zero-extended).
func idx64(t *Term, typ types.Type) *Term {
	_, signed, _ := intInfo(typ)
	return Resize(t, 64, signed)
}

// boundsCheck panics on the path where !(0 <= i < n).
func (e *Engine) boundsCheck(st *State, i *Term, n int, what string) {
	if !e.decide(st, ULt(i, BVC(64, uint64(n)))) {
		e.goPanic(st, fmt.Sprintf("runtime error: index out of range [%s] with length %d", what, n))
	}
}

func (e *Engine) execIndexAddr(st *State, fr *Frame, x *ssa.IndexAddr) {
	base := e.val(st, fr, x.X)
	i := idx64(e.val(st, fr, x.Index).(*Term), x.Index.Type())
	switch b := base.(type) {
	case SliceV:
		e.boundsCheck(st, i, b.Len, "slice")
		if i.IsConst() {
			fr.set(x, PtrV{Obj: b.Obj, Path: extPath(b.Path, PathElem{I: b.Off + int(i.U)})})
		} else {
			abs := BVAdd(i, BVC(64, uint64(b.Off)))
			fr.set(x, PtrV{Obj: b.Obj, Path: extPath(b.Path, mkSymElem(abs, b.Off, b.Len))})
		}
	case PtrV:
		if b.Obj == 0 {
			e.goPanic(st, "runtime error: invalid memory address or nil pointer dereference")
		}
		n := int(under(x.X.Type().(*types.Pointer).Elem()).(*types.Array).Len())
		e.boundsCheck(st, i, n, "array")
		if i.IsConst() {
			fr.set(x, PtrV{Obj: b.Obj, Path: extPath(b.Path, PathElem{I: int(i.U)})})
		} else {
			fr.set(x, PtrV{Obj: b.Obj, Path: extPath(b.Path, mkSymElem(i, 0, n))})
		}
	default:
		panic(unsupported(fmt.Sprintf("IndexAddr on %T", base)))
	}
}

func (e *Engine) execIndex(st *State, fr *Frame, x *ssa.Index) {
	base := e.val(st, fr, x.X)
	i := idx64(e.val(st, fr, x.Index).(*Term), x.Index.Type())
	switch b := base.(type) {
	case *ArrayV:
		e.boundsCheck(st, i, len(b.E), "array")
		if i.IsConst() {
			fr.set(x, b.E[i.U])
		} else {
			fr.set(x, selectVal(i, 0, b.E))
		}
	case StrV:
		fr.set(x, e.strIndex(st, b, i))
	default:
		panic(unsupported(fmt.Sprintf("Index on %T", base)))
	}
}

func (e *Engine) strIndex(st *State, s StrV, i *Term) *Term {
	e.boundsCheck(st, i, len(s.B), "string")
	if i.IsConst() {
		return s.B[i.U]
	}
	return selectTerm(i, 0, s.B)
}

func (e *Engine) execLookup(st *State, fr *Frame, x *ssa.Lookup) {
	base := e.val(st, fr, x.X)
	switch b := base.(type) {
	case StrV:
		i := idx64(e.val(st, fr, x.Index).(*Term), x.Index.Type())
		fr.set(x, e.strIndex(st, b, i))
	case MapV:
		v, ok := e.mapLookup(st, b, e.val(st, fr, x.Index), under(x.X.Type()).(*types.Map))
		if x.CommaOk {
			fr.set(x, TupleV{v, ok})
		} else {
			fr.set(x, v)
		}
	default:
		panic(unsupported(fmt.Sprintf("Lookup on %T", base)))
	}
}

// splitAddConst writes t as base + c.
func splitAddConst(t *Term) (*Term, uint64) {
	if t.Op == OBVAdd && t.Args[1].IsConst() {
		return t.Args[0], t.Args[1].U
	}
	return t, 0
}

func (e *Engine) execSlice(st *State, fr *Frame, x *ssa.Slice) {
	base := e.val(st, fr, x.X)
	get := func(v ssa.Value) *Term {
		if v == nil {
			return nil
		}
		return idx64(e.val(st, fr, v).(*Term), v.Type())
	}
	lo, hi, mx := get(x.Low), get(x.High), get(x.Max)
	switch b := base.(type) {
	case StrV:
		n := len(b.B)
		if lo == nil {
			lo = BVC(64, 0)
		}
		if hi == nil {
			hi = BVC(64, uint64(n))
		}
		if !lo.IsConst() || !hi.IsConst() {
			// symbolic window of constant width: s[i:i+k]
			lb, lc := splitAddConst(lo)
			hb, hc := splitAddConst(hi)
			if lb == hb && !lb.IsConst() && hc >= lc && hc-lc <= 64 {
				k := int(hc - lc)
				// bounds: 0 <= lo <= hi <= n
				if !e.decide(st, And(ULe(lo, hi), ULe(hi, BVC(64, uint64(n))))) {
					e.goPanic(st, "runtime error: slice bounds out of range")
				}
				r := make([]*Term, k)
				for j := 0; j < k; j++ {
					r[j] = selectTerm(BVAdd(lo, BVC(64, uint64(j))), 0, b.B)
				}
				fr.set(x, StrV{r})
				return
			}
		}
		l := e.concretize(st, lo, "slice low")
		h := e.concretize(st, hi, "slice high")
		if int64(l) < 0 || l > h || h > uint64(n) {
			e.goPanic(st, "runtime error: slice bounds out of range")
		}
		fr.set(x, StrV{b.B[l:h:h]})
	case SliceV:
		l, h, m := uint64(0), uint64(b.Len), uint64(b.Cap)
		if lo != nil {
			l = e.concretize(st, lo, "slice low")
		}
		if hi != nil {
			h = e.concretize(st, hi, "slice high")
		}
		if mx != nil {
			m = e.concretize(st, mx, "slice max")
		}
		if int64(l) < 0 || l > h || h > m || m > uint64(b.Cap) {
			e.goPanic(st, "runtime error: slice bounds out of range")
		}
		if b.Obj == 0 {
			fr.set(x, SliceV{})
			return
		}
		fr.set(x, SliceV{Obj: b.Obj, Path: b.Path, Off: b.Off + int(l), Len: int(h - l), Cap: int(m - l)})
	case PtrV:
		if b.Obj == 0 {
			e.goPanic(st, "runtime error: invalid memory address or nil pointer dereference")
		}
		n := uint64(under(x.X.Type().(*types.Pointer).Elem()).(*types.Array).Len())
		l, h, m := uint64(0), n, n
		if lo != nil {
			l = e.concretize(st, lo, "slice low")
		}
		if hi != nil {
			h = e.concretize(st, hi, "slice high")
		}
		if mx != nil {
			m = e.concretize(st, mx, "slice max")
		}
		if int64(l) < 0 || l > h || h > m || m > n {
			e.goPanic(st, "runtime error: slice bounds out of range")
		}
		fr.set(x, SliceV{Obj: b.Obj, Path: b.Path, Off: int(l), Len: int(h - l), Cap: int(m - l)})
	default:
		panic(unsupported(fmt.Sprintf("Slice on %T", base)))
	}
}

// ---------------------------------------------------------------------------
// range / next

func (e *Engine) execRange(st *State, fr *Frame, x *ssa.Range) {
	v := e.val(st, fr, x.X)
	id := st.NewObj(nil, nil)
	it := &IterData{}
	switch b := v.(type) {
	case StrV:
		it.Str = b
	case MapV:
		it.IsMap = true
		if b.Obj != 0 {
			md := st.obj(b.Obj).M
			it.Keys = append([]Value(nil), md.Keys...)
			it.Vals = append([]Value(nil), md.Vals...)
		}
		if st.MapOrder == 3 {
			// Go randomises the order per range statement: here every
			// second one runs backwards, so code that relies on two ranges
			// over one map agreeing meets a disagreement
			// (counted per map object: the second, fourth ... range over the
			// same map runs backwards)
			ck := fmt.Sprintf("maprange#%d", b.Obj)
			it.Rev = st.Counters[ck]%2 == 1
			st.Counters[ck]++
		}
	default:
		panic(unsupported(fmt.Sprintf("range over %T", v)))
	}
	st.Heap[id].It = it
	fr.set(x, IterV{Obj: id})
}

func (e *Engine) execNext(st *State, fr *Frame, x *ssa.Next) {
	iv := e.val(st, fr, x.Iter).(IterV)
	it := st.obj(iv.Obj).It
	tup := x.Type().(*types.Tuple)
	if x.IsString {
		s := it.Str
		if it.Pos >= len(s.B) {
			fr.set(x, TupleV{FalseT, BVC(64, 0), BVC(32, 0)})
			return
		}
		r, w := e.decodeRune(st, s, it.Pos)
		pos := it.Pos
		wit := st.wobj(iv.Obj).It
		wit.Pos = pos + w
		fr.set(x, TupleV{TrueT, BVC(64, uint64(pos)), r})
		return
	}
	n := len(it.Keys) - it.Pos
	if n <= 0 {
		fr.set(x, TupleV{FalseT, zeroOrNil(tup.At(1).Type()), zeroOrNil(tup.At(2).Type())})
		return
	}
	// iteration order is nondeterministic
	pick := 0
	if n > 1 {
		switch st.MapOrder {
		case 1:
			if st.OrderPick < 0 {
				c := Var("vp!maporder", BoolSort)
				e.declInput("vp!maporder", c, "order")
				if e.decide(st, c) {
					st.OrderPick = 1
				} else {
					st.OrderPick = 0
				}
			}
			if st.OrderPick == 1 {
				pick = n - 1
			}
		case 3:
			if it.Rev {
				pick = n - 1
			}
		case 2:
			// the counter is advanced only after the last decision of this
			// instruction: a forked clone re-executes it from the start
			name := fmt.Sprintf("vp!order%d", st.Counters["maporder"]+1)
			c := Var(name, BV(8))
			e.declInput(name, c, "order")
			e.assumeChecked(st, ULt(c, BVC(8, uint64(n))))
			pick = int(e.concretize(st, c, "map order"))
			st.Counters["maporder"]++
		}
	}
	wit := st.wobj(iv.Obj).It
	k := wit.Pos + pick
	key, val := wit.Keys[k], wit.Vals[k]
	// move the picked entry to the front of the remaining ones
	if pick != 0 {
		ks := append([]Value(nil), wit.Keys...)
		vs := append([]Value(nil), wit.Vals...)
		copy(ks[wit.Pos+1:k+1], wit.Keys[wit.Pos:k])
		copy(vs[wit.Pos+1:k+1], wit.Vals[wit.Pos:k])
		ks[wit.Pos], vs[wit.Pos] = key, val
		wit.Keys, wit.Vals = ks, vs
	}
	wit.Pos++
	fr.set(x, TupleV{TrueT, key, copyVal(val)})
}

// decodeRune decodes the UTF-8 sequence at s[i:], forking on the byte classes
// of symbolic bytes. Returns the rune (32-bit term) and the width.
func (e *Engine) decodeRune(st *State, s StrV, i int) (*Term, int) {
	b0 := s.B[i]
	if b0.IsConst() {
		// fully concrete fast path
		n := 4
		if len(s.B)-i < n {
			n = len(s.B) - i
		}
		buf := make([]byte, 0, 4)
		ok := true
		for k := 0; k < n; k++ {
			if !s.B[i+k].IsConst() {
				ok = false
				break
			}
			buf = append(buf, byte(s.B[i+k].U))
		}
		if ok || b0.U < 0x80 {
			if b0.U < 0x80 {
				return BVC(32, b0.U), 1
			}
			r, w := utf8.DecodeRune(buf)
			return BVC(32, uint64(uint32(r))), w
		}
	}
	if e.decide(st, ULt(b0, BVC(8, 0x80))) {
		return ZExt(b0, 24), 1
	}
	// non-ASCII lead byte: fork on the UTF-8 byte classes, rune stays symbolic
	in := func(t *Term, lo, hi byte) *Term {
		return And(ULe(BVC(8, uint64(lo)), t), ULe(t, BVC(8, uint64(hi))))
	}
	cont := func(k int, lo, hi byte) bool {
		if i+k >= len(s.B) {
			return false
		}
		return e.decide(st, in(s.B[i+k], lo, hi))
	}
	bits := func(k int, m uint64, sh uint64) *Term {
		return BVShl(ZExt(BVAnd(s.B[i+k], BVC(8, m)), 24), BVC(32, sh))
	}
	rerr := BVC(32, 0xFFFD)
	if e.decide(st, in(b0, 0xC2, 0xDF)) {
		if !cont(1, 0x80, 0xBF) {
			return rerr, 1
		}
		return BVOr(bits(0, 0x1F, 6), bits(1, 0x3F, 0)), 2
	}
	if e.decide(st, in(b0, 0xE0, 0xEF)) {
		lo, hi := byte(0x80), byte(0xBF)
		if e.decide(st, Eq(b0, BVC(8, 0xE0))) {
			lo = 0xA0
		} else if e.decide(st, Eq(b0, BVC(8, 0xED))) {
			hi = 0x9F
		}
		if !cont(1, lo, hi) || !cont(2, 0x80, 0xBF) {
			return rerr, 1
		}
		return BVOr(BVOr(bits(0, 0x0F, 12), bits(1, 0x3F, 6)), bits(2, 0x3F, 0)), 3
	}
	if e.decide(st, in(b0, 0xF0, 0xF4)) {
		lo, hi := byte(0x80), byte(0xBF)
		if e.decide(st, Eq(b0, BVC(8, 0xF0))) {
			lo = 0x90
		} else if e.decide(st, Eq(b0, BVC(8, 0xF4))) {
			hi = 0x8F
		}
		if !cont(1, lo, hi) || !cont(2, 0x80, 0xBF) || !cont(3, 0x80, 0xBF) {
			return rerr, 1
		}
		return BVOr(BVOr(bits(0, 0x07, 18), bits(1, 0x3F, 12)), BVOr(bits(2, 0x3F, 6), bits(3, 0x3F, 0))), 4
	}
	return rerr, 1
}

func zeroOrNil(t types.Type) Value {
	if b, ok := t.(*types.Basic); ok && b.Kind() == types.Invalid {
		return nil
	}
	return zeroValue(t)
}
