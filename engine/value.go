package main

// Runtime values of the symbolic interpreter.

import (
	"fmt"
	"go/types"
	"math"
	"strings"

	"golang.org/x/tools/go/ssa"
)

// Value is one of:
//   *Term      bool / integer kinds
//   FloatV     float64 (concrete host float, or exact integer-valued symbolic)
//   StrV       string (concrete length, byte terms)
//   PtrV       pointer (Obj==0: nil)
//   SliceV     slice (Obj==0: nil)
//   *StructV   struct value (immutable when in a register)
//   *ArrayV    array value (immutable when in a register)
//   IfaceV     interface (T==nil: nil interface)
//   MapV       map (Obj==0: nil map)
//   FuncV      function / closure / native (nil: Fn==nil && Native==nil)
//   TupleV     multi-value result
//   IterV      range iterator handle
type Value interface{}

type FloatV struct {
	Sym *Term   // Int-sorted term when symbolic (exact-int representation)
	F   float64 // concrete value when Sym == nil && FP == nil
	Mag float64 // magnitude bound for exact-int symbolic values
	FP  *Term   // FP-sorted term (IEEE binary64) for general symbolic floats
}

func (f FloatV) isConc() bool { return f.Sym == nil && f.FP == nil }

// asFP returns the IEEE binary64 term of any float value.
func (f FloatV) asFP() *Term {
	switch {
	case f.FP != nil:
		return f.FP
	case f.Sym != nil:
		return FFromInt(f.Sym)
	}
	return FPC(f.F)
}

type StrV struct {
	B []*Term
}

type PathElem struct {
	I   int   // concrete index; for symbolic elements the lowest candidate
	Sym *Term // symbolic absolute index (64-bit), nil if concrete
	N   int   // number of candidates I..I+N-1 for symbolic elements
}

type PtrV struct {
	Obj  int
	Path []PathElem
}

type SliceV struct {
	Obj  int
	Path []PathElem // path to the backing array inside the object
	Off  int
	Len  int
	Cap  int
}

type StructV struct{ F []Value }
type ArrayV struct{ E []Value }

type IfaceV struct {
	T types.Type
	V Value
}

type MapV struct{ Obj int }

type NativeFn struct {
	Name string
	Call func(e *Engine, st *State, args []Value) Value
}

type FuncV struct {
	Fn     *ssa.Function
	Free   []Value
	Native *NativeFn
}

type TupleV []Value

type IterV struct{ Obj int }

func (f FuncV) IsNil() bool { return f.Fn == nil && f.Native == nil }

func concStr(s string) StrV {
	b := make([]*Term, len(s))
	for i := 0; i < len(s); i++ {
		b[i] = byteConsts[s[i]]
	}
	return StrV{b}
}

func (s StrV) Concrete() (string, bool) {
	buf := make([]byte, len(s.B))
	for i, t := range s.B {
		if !t.IsConst() {
			return "", false
		}
		buf[i] = byte(t.U)
	}
	return string(buf), true
}

func concFloat(f float64) FloatV { return FloatV{F: f} }

// asInt returns the Int-sorted term of an exact-int float (concrete
// integer-valued floats are converted); ok=false if not representable.
func (f FloatV) asInt() (*Term, float64, bool) {
	if f.Sym != nil {
		return f.Sym, f.Mag, true
	}
	if f.F == math.Trunc(f.F) && math.Abs(f.F) < (1<<52) && !(f.F == 0 && math.Signbit(f.F)) {
		return IntC(int64(f.F)), math.Abs(f.F), true
	}
	return nil, 0, false
}

// ---------------------------------------------------------------------------
// type helpers

func under(t types.Type) types.Type {
	for {
		switch x := t.(type) {
		case *types.Named:
			t = x.Underlying()
		case *types.Alias:
			t = types.Unalias(x)
		default:
			return t
		}
	}
}

func intWidth(b *types.Basic) (w int, signed bool, ok bool) {
	switch b.Kind() {
	case types.Int8:
		return 8, true, true
	case types.Int16:
		return 16, true, true
	case types.Int32, types.UntypedRune:
		return 32, true, true
	case types.Int64, types.Int, types.UntypedInt:
		return 64, true, true
	case types.Uint8:
		return 8, false, true
	case types.Uint16:
		return 16, false, true
	case types.Uint32:
		return 32, false, true
	case types.Uint64, types.Uint, types.Uintptr:
		return 64, false, true
	}
	return 0, false, false
}

func isFloat(t types.Type) bool {
	b, ok := under(t).(*types.Basic)
	return ok && (b.Info()&types.IsFloat != 0)
}

func isString(t types.Type) bool {
	b, ok := under(t).(*types.Basic)
	return ok && (b.Info()&types.IsString != 0)
}

func isBool(t types.Type) bool {
	b, ok := under(t).(*types.Basic)
	return ok && (b.Info()&types.IsBoolean != 0)
}

func intInfo(t types.Type) (int, bool, bool) {
	b, ok := under(t).(*types.Basic)
	if !ok {
		return 0, false, false
	}
	return intWidth(b)
}

func zeroValue(t types.Type) Value {
	switch x := under(t).(type) {
	case *types.Basic:
		if x.Info()&types.IsBoolean != 0 {
			return FalseT
		}
		if x.Info()&types.IsString != 0 {
			return StrV{}
		}
		if x.Info()&types.IsFloat != 0 {
			return concFloat(0)
		}
		if x.Kind() == types.UnsafePointer {
			return PtrV{}
		}
		if w, _, ok := intWidth(x); ok {
			return BVC(w, 0)
		}
		if x.Kind() == types.UntypedNil {
			return PtrV{}
		}
		panic(unsupported("zero value of basic type " + x.String()))
	case *types.Pointer:
		return PtrV{}
	case *types.Slice:
		return SliceV{}
	case *types.Map:
		return MapV{}
	case *types.Signature:
		return FuncV{}
	case *types.Interface:
		return IfaceV{}
	case *types.Chan:
		return PtrV{}
	case *types.Struct:
		s := &StructV{F: make([]Value, x.NumFields())}
		for i := range s.F {
			s.F[i] = zeroValue(x.Field(i).Type())
		}
		return s
	case *types.Array:
		n := int(x.Len())
		a := &ArrayV{E: make([]Value, n)}
		if n > 0 {
			z := zeroValue(x.Elem())
			for i := range a.E {
				if i == 0 {
					a.E[i] = z
				} else {
					a.E[i] = copyVal(z)
				}
			}
		}
		return a
	case *types.Tuple:
		tv := make(TupleV, x.Len())
		for i := range tv {
			tv[i] = zeroValue(x.At(i).Type())
		}
		return tv
	}
	panic(unsupported("zero value of " + t.String()))
}

// copyVal deep-copies aggregates; leaves are immutable and shared.
func copyVal(v Value) Value {
	switch x := v.(type) {
	case *StructV:
		n := &StructV{F: make([]Value, len(x.F))}
		for i, f := range x.F {
			n.F[i] = copyVal(f)
		}
		return n
	case *ArrayV:
		n := &ArrayV{E: make([]Value, len(x.E))}
		for i, f := range x.E {
			switch f.(type) {
			case *StructV, *ArrayV:
				n.E[i] = copyVal(f)
			default:
				n.E[i] = f
			}
		}
		return n
	}
	return v
}

type unsupportedErr struct{ msg string }

func unsupported(msg string) unsupportedErr { return unsupportedErr{msg} }
func (u unsupportedErr) Error() string       { return "unsupported: " + u.msg }

// ---------------------------------------------------------------------------
// debug printing

func valString(v Value) string {
	switch x := v.(type) {
	case nil:
		return "<nil>"
	case *Term:
		return x.String()
	case FloatV:
		if x.FP != nil {
			return "fp:" + x.FP.String()
		}
		if x.Sym != nil {
			return "f:" + x.Sym.String()
		}
		return fmt.Sprint(x.F)
	case StrV:
		if s, ok := x.Concrete(); ok {
			return fmt.Sprintf("%q", s)
		}
		var sb strings.Builder
		sb.WriteString("str[")
		for i, b := range x.B {
			if i > 0 {
				sb.WriteByte(' ')
			}
			if i > 16 {
				sb.WriteString("...")
				break
			}
			sb.WriteString(b.String())
		}
		sb.WriteString("]")
		return sb.String()
	case PtrV:
		if x.Obj == 0 {
			return "nilptr"
		}
		return fmt.Sprintf("&obj%d%v", x.Obj, x.Path)
	case SliceV:
		if x.Obj == 0 {
			return "nilslice"
		}
		return fmt.Sprintf("slice(obj%d%v off=%d len=%d cap=%d)", x.Obj, x.Path, x.Off, x.Len, x.Cap)
	case *StructV:
		var sb strings.Builder
		sb.WriteString("{")
		for i, f := range x.F {
			if i > 0 {
				sb.WriteString(", ")
			}
			sb.WriteString(valString(f))
		}
		sb.WriteString("}")
		return sb.String()
	case *ArrayV:
		var sb strings.Builder
		sb.WriteString("[")
		for i, f := range x.E {
			if i > 0 {
				sb.WriteString(", ")
			}
			if i > 16 {
				sb.WriteString("...")
				break
			}
			sb.WriteString(valString(f))
		}
		sb.WriteString("]")
		return sb.String()
	case IfaceV:
		if x.T == nil {
			return "nil-iface"
		}
		return fmt.Sprintf("iface(%s: %s)", x.T, valString(x.V))
	case MapV:
		return fmt.Sprintf("map(obj%d)", x.Obj)
	case FuncV:
		if x.Fn != nil {
			return "func " + x.Fn.String()
		}
		if x.Native != nil {
			return "native " + x.Native.Name
		}
		return "nilfunc"
	case TupleV:
		var sb strings.Builder
		sb.WriteString("(")
		for i, f := range x {
			if i > 0 {
				sb.WriteString(", ")
			}
			sb.WriteString(valString(f))
		}
		sb.WriteString(")")
		return sb.String()
	case IterV:
		return fmt.Sprintf("iter(obj%d)", x.Obj)
	}
	return fmt.Sprintf("?%T", v)
}
