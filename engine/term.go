package main

// Term layer: hash-consed SMT terms over Bool, fixed-width bit-vectors and
// mathematical integers (the latter only for "exact-int" float64 values),
// with constant folding and a few local simplifications.

import (
	"fmt"
	"math"
	"math/bits"
	"strconv"
	"strings"
)

type SortKind uint8

const (
	SBool SortKind = iota
	SBV
	SInt
	SFP // IEEE binary64
)

type Sort struct {
	K SortKind
	W int // bit width for SBV
}

func (s Sort) String() string {
	switch s.K {
	case SBool:
		return "Bool"
	case SBV:
		return fmt.Sprintf("(_ BitVec %d)", s.W)
	case SFP:
		return "(_ FloatingPoint 11 53)"
	default:
		return "Int"
	}
}

var BoolSort = Sort{SBool, 0}
var IntSort = Sort{SInt, 0}
var FPSort = Sort{SFP, 0}

func BV(w int) Sort { return Sort{SBV, w} }

type Op uint8

const (
	OConst Op = iota
	OVar
	ONot
	OAnd
	OOr
	OIte
	OEq
	OBVAdd
	OBVSub
	OBVMul
	OBVUDiv
	OBVURem
	OBVSDiv
	OBVSRem
	OBVAnd
	OBVOr
	OBVXor
	OBVNot
	OBVNeg
	OBVShl
	OBVLShr
	OBVAShr
	OBVULt
	OBVULe
	OBVSLt
	OBVSLe
	OExtract // A=hi, B=lo
	OZExt    // A=extra bits
	OSExt    // A=extra bits
	OIAdd
	OISub
	OINeg
	OILt
	OILe
	OIMod // mathematical integer modulo a positive constant (SMT-LIB mod: result in [0, d))
	OBV2Int // signed interpretation of bv -> Int
	OApp    // uninterpreted function application (Name), result sort in term
	// IEEE binary64, round to nearest even (Go's float64 arithmetic)
	OFAdd
	OFSub
	OFMul
	OFDiv
	OFNeg
	OFLt
	OFLe
	OFEq // fp.eq: NaN != NaN, -0 == +0
	OFIsNaN
	OFIsNeg
	OFFromBits // reinterpret a 64-bit vector
	OFFromSBV  // signed integer bit-vector -> float64
	OFFromInt  // mathematical integer -> float64
	OFRound32  // float64 -> float32 -> float64
)

var opNames = map[Op]string{
	ONot: "not", OAnd: "and", OOr: "or", OIte: "ite", OEq: "=",
	OBVAdd: "bvadd", OBVSub: "bvsub", OBVMul: "bvmul", OBVUDiv: "bvudiv", OBVURem: "bvurem",
	OBVSDiv: "bvsdiv", OBVSRem: "bvsrem", OBVAnd: "bvand", OBVOr: "bvor", OBVXor: "bvxor",
	OBVNot: "bvnot", OBVNeg: "bvneg", OBVShl: "bvshl", OBVLShr: "bvlshr", OBVAShr: "bvashr",
	OBVULt: "bvult", OBVULe: "bvule", OBVSLt: "bvslt", OBVSLe: "bvsle",
	OIAdd: "+", OISub: "-", OINeg: "-", OILt: "<", OILe: "<=", OIMod: "mod",
}

type Term struct {
	Op   Op
	S    Sort
	Args []*Term
	U    uint64 // bv constant (masked) or bool constant (0/1)
	I    int64  // int constant
	A, B int    // extract hi/lo, extension amount
	Name string // variable / function name
	ID   int
	def  bool // emitted to the solver (declared or defined)
	size int  // approximate dag-unaware size, saturating
}

type termKey struct {
	op      Op
	k       SortKind
	w       int
	u       uint64
	i       int64
	a, b    int
	name    string
	a0, a1  int
	a2      int
	restKey string
}

var termTab = map[termKey]*Term{}
var termSeq int

func mkTerm(t Term) *Term {
	k := termKey{op: t.Op, k: t.S.K, w: t.S.W, u: t.U, i: t.I, a: t.A, b: t.B, name: t.Name, a0: -1, a1: -1, a2: -1}
	n := len(t.Args)
	if n > 0 {
		k.a0 = t.Args[0].ID
	}
	if n > 1 {
		k.a1 = t.Args[1].ID
	}
	if n > 2 {
		k.a2 = t.Args[2].ID
	}
	if n > 3 {
		var sb strings.Builder
		for _, a := range t.Args[3:] {
			sb.WriteString(strconv.Itoa(a.ID))
			sb.WriteByte(',')
		}
		k.restKey = sb.String()
	}
	if x, ok := termTab[k]; ok {
		return x
	}
	termSeq++
	nt := new(Term)
	*nt = t
	nt.ID = termSeq
	sz := 1
	for _, a := range t.Args {
		sz += a.size
		if sz > 1<<20 {
			sz = 1 << 20
		}
	}
	nt.size = sz
	termTab[k] = nt
	return nt
}

func mask(w int) uint64 {
	if w >= 64 {
		return ^uint64(0)
	}
	return (uint64(1) << uint(w)) - 1
}

var TrueT = mkTerm(Term{Op: OConst, S: BoolSort, U: 1})
var FalseT = mkTerm(Term{Op: OConst, S: BoolSort, U: 0})

func BoolC(b bool) *Term {
	if b {
		return TrueT
	}
	return FalseT
}

var byteConsts [256]*Term

func init() {
	for i := range byteConsts {
		byteConsts[i] = mkTerm(Term{Op: OConst, S: BV(8), U: uint64(i)})
	}
}

func BVC(w int, v uint64) *Term {
	if w == 8 {
		return byteConsts[v&0xff]
	}
	return mkTerm(Term{Op: OConst, S: BV(w), U: v & mask(w)})
}

func IntC(v int64) *Term { return mkTerm(Term{Op: OConst, S: IntSort, I: v}) }

func Var(name string, s Sort) *Term { return mkTerm(Term{Op: OVar, S: s, Name: name}) }

func (t *Term) IsConst() bool { return t.Op == OConst }
func (t *Term) IsTrue() bool  { return t == TrueT }
func (t *Term) IsFalse() bool { return t == FalseT }

// signed value of a bv constant
func (t *Term) SVal() int64 { return sext(t.U, t.S.W) }

func sext(u uint64, w int) int64 {
	if w >= 64 {
		return int64(u)
	}
	if u&(uint64(1)<<uint(w-1)) != 0 {
		return int64(u | ^mask(w))
	}
	return int64(u)
}

func Not(a *Term) *Term {
	if a.IsConst() {
		return BoolC(a.U == 0)
	}
	if a.Op == ONot {
		return a.Args[0]
	}
	return mkTerm(Term{Op: ONot, S: BoolSort, Args: []*Term{a}})
}

func And(xs ...*Term) *Term {
	var out []*Term
	seen := map[int]bool{}
	for _, x := range xs {
		if x.IsFalse() {
			return FalseT
		}
		if x.IsTrue() {
			continue
		}
		if x.Op == OAnd {
			for _, y := range x.Args {
				if !seen[y.ID] {
					seen[y.ID] = true
					out = append(out, y)
				}
			}
			continue
		}
		if !seen[x.ID] {
			seen[x.ID] = true
			out = append(out, x)
		}
	}
	for _, x := range out {
		if x.Op == ONot && seen[x.Args[0].ID] {
			return FalseT
		}
	}
	if len(out) == 0 {
		return TrueT
	}
	if len(out) == 1 {
		return out[0]
	}
	return mkTerm(Term{Op: OAnd, S: BoolSort, Args: out})
}

func Or(xs ...*Term) *Term {
	var out []*Term
	seen := map[int]bool{}
	for _, x := range xs {
		if x.IsTrue() {
			return TrueT
		}
		if x.IsFalse() {
			continue
		}
		if x.Op == OOr {
			for _, y := range x.Args {
				if !seen[y.ID] {
					seen[y.ID] = true
					out = append(out, y)
				}
			}
			continue
		}
		if !seen[x.ID] {
			seen[x.ID] = true
			out = append(out, x)
		}
	}
	for _, x := range out {
		if x.Op == ONot && seen[x.Args[0].ID] {
			return TrueT
		}
	}
	if len(out) == 0 {
		return FalseT
	}
	if len(out) == 1 {
		return out[0]
	}
	return mkTerm(Term{Op: OOr, S: BoolSort, Args: out})
}

func Ite(c, a, b *Term) *Term {
	if c.IsTrue() {
		return a
	}
	if c.IsFalse() {
		return b
	}
	if a == b {
		return a
	}
	if a.S != b.S {
		panic(fmt.Sprintf("ite sort mismatch %v %v", a.S, b.S))
	}
	if a.S.K == SBool {
		if a.IsTrue() && b.IsFalse() {
			return c
		}
		if a.IsFalse() && b.IsTrue() {
			return Not(c)
		}
		if a.IsTrue() {
			return Or(c, b)
		}
		if a.IsFalse() {
			return And(Not(c), b)
		}
		if b.IsTrue() {
			return Or(Not(c), a)
		}
		if b.IsFalse() {
			return And(c, a)
		}
	}
	if c.Op == ONot {
		return Ite(c.Args[0], b, a)
	}
	// ite(c, ite(c, x, y), z) -> ite(c, x, z)
	if a.Op == OIte && a.Args[0] == c {
		a = a.Args[1]
	}
	if b.Op == OIte && b.Args[0] == c {
		b = b.Args[2]
	}
	if a == b {
		return a
	}
	return mkTerm(Term{Op: OIte, S: a.S, Args: []*Term{c, a, b}})
}

// constLeaves reports whether t is a constant or an ite tree (bounded depth)
// whose leaves are all constants.
func constTree(t *Term, depth int) bool {
	if t.IsConst() {
		return true
	}
	if t.Op == OIte && depth > 0 {
		return constTree(t.Args[1], depth-1) && constTree(t.Args[2], depth-1)
	}
	return false
}

func Eq(a, b *Term) *Term {
	if a == b {
		return TrueT
	}
	if a.S != b.S {
		panic(fmt.Sprintf("eq sort mismatch %v %v (%s, %s)", a.S, b.S, a, b))
	}
	if a.IsConst() && b.IsConst() {
		// distinct hash-consed constants
		return FalseT
	}
	if a.S.K == SBool {
		if a.IsTrue() {
			return b
		}
		if a.IsFalse() {
			return Not(b)
		}
		if b.IsTrue() {
			return a
		}
		if b.IsFalse() {
			return Not(a)
		}
	}
	if a.IsConst() {
		a, b = b, a
	}
	if b.IsConst() {
		// push equality with a constant through constant-leaved ite trees
		if a.Op == OIte && constTree(a, 12) {
			return Ite(a.Args[0], Eq(a.Args[1], b), Eq(a.Args[2], b))
		}
		// zero_extend(x) == c
		if a.Op == OZExt {
			x := a.Args[0]
			if b.U > mask(x.S.W) {
				return FalseT
			}
			return Eq(x, BVC(x.S.W, b.U))
		}
		if a.Op == OSExt {
			x := a.Args[0]
			sv := sext(b.U, b.S.W)
			lo := sext(uint64(1)<<uint(x.S.W-1), x.S.W)
			if sv < lo || sv > -lo-1 {
				return FalseT
			}
			return Eq(x, BVC(x.S.W, uint64(sv)))
		}
		// (x + c1) == c2  ->  x == c2-c1
		if a.Op == OBVAdd && a.Args[1].IsConst() {
			return Eq(a.Args[0], BVC(a.S.W, b.U-a.Args[1].U))
		}
	}
	if a.ID > b.ID && !b.IsConst() {
		a, b = b, a
	}
	return mkTerm(Term{Op: OEq, S: BoolSort, Args: []*Term{a, b}})
}

func Neq(a, b *Term) *Term { return Not(Eq(a, b)) }

func bvBin(op Op, a, b *Term) *Term {
	w := a.S.W
	if a.S != b.S {
		panic(fmt.Sprintf("bv sort mismatch op=%v %v %v", opNames[op], a.S, b.S))
	}
	m := mask(w)
	if a.IsConst() && b.IsConst() {
		x, y := a.U, b.U
		switch op {
		case OBVAdd:
			return BVC(w, x+y)
		case OBVSub:
			return BVC(w, x-y)
		case OBVMul:
			return BVC(w, x*y)
		case OBVUDiv:
			if y == 0 {
				return BVC(w, m)
			}
			return BVC(w, x/y)
		case OBVURem:
			if y == 0 {
				return BVC(w, x)
			}
			return BVC(w, x%y)
		case OBVSDiv:
			sx, sy := sext(x, w), sext(y, w)
			if sy == 0 {
				if sx < 0 {
					return BVC(w, 1)
				}
				return BVC(w, m)
			}
			if sy == -1 {
				return BVC(w, uint64(-sx))
			}
			return BVC(w, uint64(sx/sy))
		case OBVSRem:
			sx, sy := sext(x, w), sext(y, w)
			if sy == 0 {
				return BVC(w, x)
			}
			if sy == -1 {
				return BVC(w, 0)
			}
			return BVC(w, uint64(sx%sy))
		case OBVAnd:
			return BVC(w, x&y)
		case OBVOr:
			return BVC(w, x|y)
		case OBVXor:
			return BVC(w, x^y)
		case OBVShl:
			if y >= uint64(w) {
				return BVC(w, 0)
			}
			return BVC(w, x<<y)
		case OBVLShr:
			if y >= uint64(w) {
				return BVC(w, 0)
			}
			return BVC(w, x>>y)
		case OBVAShr:
			sx := sext(x, w)
			if y >= uint64(w) {
				y = uint64(w - 1)
			}
			return BVC(w, uint64(sx>>y))
		}
	}
	switch op {
	case OBVAdd:
		if a.IsConst() {
			a, b = b, a
		}
		if b.IsConst() {
			if b.U == 0 {
				return a
			}
			if a.Op == OBVAdd && a.Args[1].IsConst() {
				return bvBin(OBVAdd, a.Args[0], BVC(w, a.Args[1].U+b.U))
			}
		}
	case OBVSub:
		if b.IsConst() {
			return bvBin(OBVAdd, a, BVC(w, -b.U))
		}
		if a == b {
			return BVC(w, 0)
		}
		// (x + c) - x -> c ; (x+c1) - (x+c2) -> c1-c2
		ab, ac := a, uint64(0)
		if a.Op == OBVAdd && a.Args[1].IsConst() {
			ab, ac = a.Args[0], a.Args[1].U
		}
		bb, bc := b, uint64(0)
		if b.Op == OBVAdd && b.Args[1].IsConst() {
			bb, bc = b.Args[0], b.Args[1].U
		}
		if ab == bb {
			return BVC(w, ac-bc)
		}
	case OBVMul:
		if a.IsConst() {
			a, b = b, a
		}
		if b.IsConst() {
			if b.U == 0 {
				return b
			}
			if b.U == 1 {
				return a
			}
		}
	case OBVAnd:
		if a.IsConst() {
			a, b = b, a
		}
		if b.IsConst() {
			if b.U == 0 {
				return b
			}
			if b.U == m {
				return a
			}
		}
		if a == b {
			return a
		}
	case OBVOr:
		if a.IsConst() {
			a, b = b, a
		}
		if b.IsConst() {
			if b.U == 0 {
				return a
			}
			if b.U == m {
				return b
			}
		}
		if a == b {
			return a
		}
	case OBVXor:
		if a.IsConst() {
			a, b = b, a
		}
		if b.IsConst() && b.U == 0 {
			return a
		}
		if a == b {
			return BVC(w, 0)
		}
	case OBVShl, OBVLShr, OBVAShr:
		if b.IsConst() && b.U == 0 {
			return a
		}
		if a.IsConst() && a.U == 0 {
			return a
		}
	case OBVUDiv, OBVSDiv:
		if b.IsConst() && b.U == 1 {
			return a
		}
	}
	return mkTerm(Term{Op: op, S: a.S, Args: []*Term{a, b}})
}

func BVAdd(a, b *Term) *Term  { return bvBin(OBVAdd, a, b) }
func BVSub(a, b *Term) *Term  { return bvBin(OBVSub, a, b) }
func BVMul(a, b *Term) *Term  { return bvBin(OBVMul, a, b) }
func BVAnd(a, b *Term) *Term  { return bvBin(OBVAnd, a, b) }
func BVOr(a, b *Term) *Term   { return bvBin(OBVOr, a, b) }
func BVXor(a, b *Term) *Term  { return bvBin(OBVXor, a, b) }
func BVShl(a, b *Term) *Term  { return bvBin(OBVShl, a, b) }
func BVLShr(a, b *Term) *Term { return bvBin(OBVLShr, a, b) }
func BVAShr(a, b *Term) *Term { return bvBin(OBVAShr, a, b) }
func BVUDiv(a, b *Term) *Term { return bvBin(OBVUDiv, a, b) }
func BVURem(a, b *Term) *Term { return bvBin(OBVURem, a, b) }
func BVSDiv(a, b *Term) *Term { return bvBin(OBVSDiv, a, b) }
func BVSRem(a, b *Term) *Term { return bvBin(OBVSRem, a, b) }

func BVNot(a *Term) *Term {
	if a.IsConst() {
		return BVC(a.S.W, ^a.U)
	}
	if a.Op == OBVNot {
		return a.Args[0]
	}
	return mkTerm(Term{Op: OBVNot, S: a.S, Args: []*Term{a}})
}

func BVNeg(a *Term) *Term {
	if a.IsConst() {
		return BVC(a.S.W, -a.U)
	}
	return mkTerm(Term{Op: OBVNeg, S: a.S, Args: []*Term{a}})
}

// unsigned range of a term, cheaply
func urange(t *Term) (lo, hi uint64) {
	switch t.Op {
	case OConst:
		return t.U, t.U
	case OZExt:
		_, h := urange(t.Args[0])
		return 0, h
	case OIte:
		l1, h1 := urange(t.Args[1])
		l2, h2 := urange(t.Args[2])
		if l2 < l1 {
			l1 = l2
		}
		if h2 > h1 {
			h1 = h2
		}
		return l1, h1
	case OBVAnd:
		if t.Args[1].IsConst() {
			return 0, t.Args[1].U
		}
	case OBVURem:
		if t.Args[1].IsConst() && t.Args[1].U > 0 {
			return 0, t.Args[1].U - 1
		}
	}
	return 0, mask(t.S.W)
}

func bvCmp(op Op, a, b *Term) *Term {
	if a.S != b.S {
		panic(fmt.Sprintf("cmp sort mismatch %v %v", a.S, b.S))
	}
	w := a.S.W
	if a.IsConst() && b.IsConst() {
		switch op {
		case OBVULt:
			return BoolC(a.U < b.U)
		case OBVULe:
			return BoolC(a.U <= b.U)
		case OBVSLt:
			return BoolC(sext(a.U, w) < sext(b.U, w))
		case OBVSLe:
			return BoolC(sext(a.U, w) <= sext(b.U, w))
		}
	}
	if a == b {
		return BoolC(op == OBVULe || op == OBVSLe)
	}
	// cheap interval reasoning for unsigned, and for signed when both sides are
	// known non-negative
	al, ah := urange(a)
	bl, bh := urange(b)
	nonneg := ah < uint64(1)<<uint(w-1) && bh < uint64(1)<<uint(w-1)
	if op == OBVULt || (op == OBVSLt && nonneg) {
		if ah < bl {
			return TrueT
		}
		if al >= bh {
			return FalseT
		}
	}
	if op == OBVULe || (op == OBVSLe && nonneg) {
		if ah <= bl {
			return TrueT
		}
		if al > bh {
			return FalseT
		}
	}
	// comparisons through equal-width extensions of narrower operands
	if (op == OBVULt || op == OBVULe) && a.Op == OZExt && b.IsConst() && b.U <= mask(a.Args[0].S.W) {
		return bvCmp(op, a.Args[0], BVC(a.Args[0].S.W, b.U))
	}
	if (op == OBVULt || op == OBVULe) && b.Op == OZExt && a.IsConst() && a.U <= mask(b.Args[0].S.W) {
		return bvCmp(op, BVC(b.Args[0].S.W, a.U), b.Args[0])
	}
	if (op == OBVSLt || op == OBVSLe) && a.Op == OZExt && b.IsConst() && sext(b.U, w) >= 0 && b.U <= mask(a.Args[0].S.W) {
		uop := OBVULt
		if op == OBVSLe {
			uop = OBVULe
		}
		return bvCmp(uop, a.Args[0], BVC(a.Args[0].S.W, b.U))
	}
	if (op == OBVSLt || op == OBVSLe) && b.Op == OZExt && a.IsConst() && sext(a.U, w) >= 0 && a.U <= mask(b.Args[0].S.W) {
		uop := OBVULt
		if op == OBVSLe {
			uop = OBVULe
		}
		return bvCmp(uop, BVC(b.Args[0].S.W, a.U), b.Args[0])
	}
	if a.Op == OIte && b.IsConst() && constTree(a, 12) {
		return Ite(a.Args[0], bvCmp(op, a.Args[1], b), bvCmp(op, a.Args[2], b))
	}
	if b.Op == OIte && a.IsConst() && constTree(b, 12) {
		return Ite(b.Args[0], bvCmp(op, a, b.Args[1]), bvCmp(op, a, b.Args[2]))
	}
	return mkTerm(Term{Op: op, S: BoolSort, Args: []*Term{a, b}})
}

func ULt(a, b *Term) *Term { return bvCmp(OBVULt, a, b) }
func ULe(a, b *Term) *Term { return bvCmp(OBVULe, a, b) }
func SLt(a, b *Term) *Term { return bvCmp(OBVSLt, a, b) }
func SLe(a, b *Term) *Term { return bvCmp(OBVSLe, a, b) }

func Extract(a *Term, hi, lo int) *Term {
	if lo == 0 && hi == a.S.W-1 {
		return a
	}
	nw := hi - lo + 1
	if a.IsConst() {
		return BVC(nw, a.U>>uint(lo))
	}
	if (a.Op == OZExt || a.Op == OSExt) && hi < a.Args[0].S.W {
		return Extract(a.Args[0], hi, lo)
	}
	if a.Op == OZExt && lo == 0 && hi >= a.Args[0].S.W {
		return ZExt(a.Args[0], nw-a.Args[0].S.W)
	}
	if a.Op == OIte && constTree(a, 12) {
		return Ite(a.Args[0], Extract(a.Args[1], hi, lo), Extract(a.Args[2], hi, lo))
	}
	return mkTerm(Term{Op: OExtract, S: BV(nw), Args: []*Term{a}, A: hi, B: lo})
}

func ZExt(a *Term, n int) *Term {
	if n == 0 {
		return a
	}
	if a.IsConst() {
		return BVC(a.S.W+n, a.U)
	}
	if a.Op == OZExt {
		return ZExt(a.Args[0], n+a.A)
	}
	if a.Op == OIte && constTree(a, 12) {
		return Ite(a.Args[0], ZExt(a.Args[1], n), ZExt(a.Args[2], n))
	}
	return mkTerm(Term{Op: OZExt, S: BV(a.S.W + n), Args: []*Term{a}, A: n})
}

func SExt(a *Term, n int) *Term {
	if n == 0 {
		return a
	}
	if a.IsConst() {
		return BVC(a.S.W+n, uint64(sext(a.U, a.S.W)))
	}
	if a.Op == OZExt {
		return ZExt(a.Args[0], n+a.A)
	}
	if a.Op == OIte && constTree(a, 12) {
		return Ite(a.Args[0], SExt(a.Args[1], n), SExt(a.Args[2], n))
	}
	return mkTerm(Term{Op: OSExt, S: BV(a.S.W + n), Args: []*Term{a}, A: n})
}

// Resize converts a bv to width w; signed says whether the *source* is signed.
func Resize(a *Term, w int, signed bool) *Term {
	if a.S.W == w {
		return a
	}
	if a.S.W > w {
		return Extract(a, w-1, 0)
	}
	if signed {
		return SExt(a, w-a.S.W)
	}
	return ZExt(a, w-a.S.W)
}

func IAdd(a, b *Term) *Term {
	if a.IsConst() && b.IsConst() {
		return IntC(a.I + b.I)
	}
	if a.IsConst() && a.I == 0 {
		return b
	}
	if b.IsConst() && b.I == 0 {
		return a
	}
	return mkTerm(Term{Op: OIAdd, S: IntSort, Args: []*Term{a, b}})
}

func ISub(a, b *Term) *Term {
	if a.IsConst() && b.IsConst() {
		return IntC(a.I - b.I)
	}
	if b.IsConst() && b.I == 0 {
		return a
	}
	if a == b {
		return IntC(0)
	}
	return mkTerm(Term{Op: OISub, S: IntSort, Args: []*Term{a, b}})
}

func INeg(a *Term) *Term {
	if a.IsConst() {
		return IntC(-a.I)
	}
	return mkTerm(Term{Op: OINeg, S: IntSort, Args: []*Term{a}})
}

func ILt(a, b *Term) *Term {
	if a.IsConst() && b.IsConst() {
		return BoolC(a.I < b.I)
	}
	if a == b {
		return FalseT
	}
	return mkTerm(Term{Op: OILt, S: BoolSort, Args: []*Term{a, b}})
}

func ILe(a, b *Term) *Term {
	if a.IsConst() && b.IsConst() {
		return BoolC(a.I <= b.I)
	}
	if a == b {
		return TrueT
	}
	return mkTerm(Term{Op: OILe, S: BoolSort, Args: []*Term{a, b}})
}

// IMod is a mod d for a positive constant d (result in [0, d), as in SMT-LIB).
func IMod(a *Term, d int64) *Term {
	if d <= 0 {
		panic("IMod: divisor must be positive")
	}
	if a.IsConst() {
		return IntC(((a.I % d) + d) % d)
	}
	return mkTerm(Term{Op: OIMod, S: IntSort, Args: []*Term{a, IntC(d)}})
}

func BV2Int(a *Term) *Term {
	if a.IsConst() {
		return IntC(sext(a.U, a.S.W))
	}
	return mkTerm(Term{Op: OBV2Int, S: IntSort, Args: []*Term{a}})
}

func App(name string, s Sort, args ...*Term) *Term {
	return mkTerm(Term{Op: OApp, S: s, Name: name, Args: args})
}

// ---------------------------------------------------------------------------
// IEEE binary64 terms. Constants carry the bit pattern in U; folding uses the
// host's float64 arithmetic, which is the same round-to-nearest-even.

func FPC(f float64) *Term { return mkTerm(Term{Op: OConst, S: FPSort, U: math.Float64bits(f)}) }

func (t *Term) FVal() float64 { return math.Float64frombits(t.U) }

func fpBin(op Op, a, b *Term) *Term {
	if a.IsConst() && b.IsConst() {
		x, y := a.FVal(), b.FVal()
		switch op {
		case OFAdd:
			return FPC(x + y)
		case OFSub:
			return FPC(x - y)
		case OFMul:
			return FPC(x * y)
		case OFDiv:
			return FPC(x / y)
		}
	}
	return mkTerm(Term{Op: op, S: FPSort, Args: []*Term{a, b}})
}

func FAdd(a, b *Term) *Term { return fpBin(OFAdd, a, b) }
func FSub(a, b *Term) *Term { return fpBin(OFSub, a, b) }
func FMul(a, b *Term) *Term { return fpBin(OFMul, a, b) }
func FDiv(a, b *Term) *Term { return fpBin(OFDiv, a, b) }

func FNeg(a *Term) *Term {
	if a.IsConst() {
		return FPC(-a.FVal())
	}
	return mkTerm(Term{Op: OFNeg, S: FPSort, Args: []*Term{a}})
}

func fpCmp(op Op, a, b *Term) *Term {
	if a.IsConst() && b.IsConst() {
		x, y := a.FVal(), b.FVal()
		switch op {
		case OFLt:
			return BoolC(x < y)
		case OFLe:
			return BoolC(x <= y)
		case OFEq:
			return BoolC(x == y)
		}
	}
	return mkTerm(Term{Op: op, S: BoolSort, Args: []*Term{a, b}})
}

func FLt(a, b *Term) *Term { return fpCmp(OFLt, a, b) }
func FLe(a, b *Term) *Term { return fpCmp(OFLe, a, b) }
func FEq(a, b *Term) *Term { return fpCmp(OFEq, a, b) }

func FIsNaN(a *Term) *Term {
	if a.IsConst() {
		return BoolC(a.FVal() != a.FVal())
	}
	return mkTerm(Term{Op: OFIsNaN, S: BoolSort, Args: []*Term{a}})
}

func FIsNeg(a *Term) *Term {
	if a.IsConst() {
		return BoolC(math.Signbit(a.FVal()) && a.FVal() == a.FVal())
	}
	return mkTerm(Term{Op: OFIsNeg, S: BoolSort, Args: []*Term{a}})
}

func FFromBits(a *Term) *Term {
	if a.IsConst() {
		return mkTerm(Term{Op: OConst, S: FPSort, U: a.U})
	}
	return mkTerm(Term{Op: OFFromBits, S: FPSort, Args: []*Term{a}})
}

func FFromSBV(a *Term) *Term {
	if a.IsConst() {
		return FPC(float64(a.SVal()))
	}
	return mkTerm(Term{Op: OFFromSBV, S: FPSort, Args: []*Term{a}})
}

func FRound32(a *Term) *Term {
	if a.IsConst() {
		return FPC(float64(float32(a.FVal())))
	}
	return mkTerm(Term{Op: OFRound32, S: FPSort, Args: []*Term{a}})
}

func FFromInt(a *Term) *Term {
	if a.IsConst() {
		return FPC(float64(a.I))
	}
	return mkTerm(Term{Op: OFFromInt, S: FPSort, Args: []*Term{a}})
}

// ---------------------------------------------------------------------------
// printing (debug) and SMT-LIB constants

func smtConst(t *Term) string {
	switch t.S.K {
	case SBool:
		if t.U != 0 {
			return "true"
		}
		return "false"
	case SBV:
		if t.S.W%4 == 0 {
			return fmt.Sprintf("#x%0*x", t.S.W/4, t.U)
		}
		return fmt.Sprintf("#b%0*b", t.S.W, t.U)
	case SFP:
		return fmt.Sprintf("(fp #b%b #b%011b #b%052b)", t.U>>63, (t.U>>52)&0x7ff, t.U&(1<<52-1))
	default:
		if t.I < 0 {
			return fmt.Sprintf("(- %d)", -t.I)
		}
		return strconv.FormatInt(t.I, 10)
	}
}

func (t *Term) String() string {
	var sb strings.Builder
	t.write(&sb, 6)
	return sb.String()
}

func (t *Term) write(sb *strings.Builder, depth int) {
	switch t.Op {
	case OConst:
		if t.S.K == SBV {
			fmt.Fprintf(sb, "%d", t.U)
		} else if t.S.K == SFP {
			fmt.Fprintf(sb, "%v", t.FVal())
		} else {
			sb.WriteString(smtConst(t))
		}
		return
	case OVar:
		sb.WriteString(t.Name)
		return
	}
	if depth == 0 {
		fmt.Fprintf(sb, "t%d", t.ID)
		return
	}
	sb.WriteByte('(')
	switch t.Op {
	case OExtract:
		fmt.Fprintf(sb, "extract[%d:%d]", t.A, t.B)
	case OZExt:
		fmt.Fprintf(sb, "zext%d", t.A)
	case OSExt:
		fmt.Fprintf(sb, "sext%d", t.A)
	case OBV2Int:
		sb.WriteString("bv2int")
	case OApp:
		sb.WriteString(t.Name)
	default:
		sb.WriteString(opNames[t.Op])
	}
	for _, a := range t.Args {
		sb.WriteByte(' ')
		a.write(sb, depth-1)
	}
	sb.WriteByte(')')
}

// ---------------------------------------------------------------------------
// evaluation under a model

type Model map[string]uint64 // var name -> value (bv: masked; bool: 0/1; int: int64 bits)

type evalCtx struct {
	m    Model
	memo map[int]uint64
	apps map[string]uint64 // uninterpreted applications "name(args)" -> value
	miss bool
}

func (m Model) Eval(t *Term) uint64 {
	c := &evalCtx{m: m, memo: map[int]uint64{}}
	return c.eval(t)
}

func (c *evalCtx) eval(t *Term) uint64 {
	if t.Op == OConst {
		if t.S.K == SInt {
			return uint64(t.I)
		}
		return t.U
	}
	if v, ok := c.memo[t.ID]; ok {
		return v
	}
	var r uint64
	w := t.S.W
	a := func(i int) uint64 { return c.eval(t.Args[i]) }
	switch t.Op {
	case OVar:
		// a variable absent from the model was not mentioned by any asserted
		// constraint when the model was taken: any value (0) extends the model
		r = c.m[t.Name]
	case ONot:
		r = 1 - a(0)
	case OAnd:
		r = 1
		for i := range t.Args {
			if a(i) == 0 {
				r = 0
				break
			}
		}
	case OOr:
		r = 0
		for i := range t.Args {
			if a(i) != 0 {
				r = 1
				break
			}
		}
	case OIte:
		if a(0) != 0 {
			r = a(1)
		} else {
			r = a(2)
		}
	case OEq:
		if a(0) == a(1) {
			r = 1
		}
	case OBVAdd, OBVSub, OBVMul, OBVUDiv, OBVURem, OBVSDiv, OBVSRem, OBVAnd, OBVOr, OBVXor, OBVShl, OBVLShr, OBVAShr:
		x := bvBin(t.Op, BVC(w, a(0)), BVC(w, a(1)))
		r = x.U
	case OBVNot:
		r = ^a(0) & mask(w)
	case OBVNeg:
		r = -a(0) & mask(w)
	case OBVULt, OBVULe, OBVSLt, OBVSLe:
		aw := t.Args[0].S.W
		x := bvCmp(t.Op, BVC(aw, a(0)), BVC(aw, a(1)))
		r = x.U
	case OExtract:
		r = (a(0) >> uint(t.B)) & mask(t.A-t.B+1)
	case OZExt:
		r = a(0)
	case OSExt:
		r = uint64(sext(a(0), t.Args[0].S.W)) & mask(w)
	case OIAdd:
		r = a(0) + a(1)
	case OISub:
		r = a(0) - a(1)
	case OINeg:
		r = -a(0)
	case OILt:
		if int64(a(0)) < int64(a(1)) {
			r = 1
		}
	case OILe:
		if int64(a(0)) <= int64(a(1)) {
			r = 1
		}
	case OIMod:
		d := int64(a(1))
		r = uint64(((int64(a(0)) % d) + d) % d)
	case OBV2Int:
		r = uint64(sext(a(0), t.Args[0].S.W))
	case OFAdd, OFSub, OFMul, OFDiv:
		x, y := math.Float64frombits(a(0)), math.Float64frombits(a(1))
		var z float64
		switch t.Op {
		case OFAdd:
			z = x + y
		case OFSub:
			z = x - y
		case OFMul:
			z = x * y
		default:
			z = x / y
		}
		r = math.Float64bits(z)
	case OFNeg:
		r = math.Float64bits(-math.Float64frombits(a(0)))
	case OFLt, OFLe, OFEq:
		x, y := math.Float64frombits(a(0)), math.Float64frombits(a(1))
		ok := false
		switch t.Op {
		case OFLt:
			ok = x < y
		case OFLe:
			ok = x <= y
		default:
			ok = x == y
		}
		if ok {
			r = 1
		}
	case OFIsNaN:
		if x := math.Float64frombits(a(0)); x != x {
			r = 1
		}
	case OFIsNeg:
		if x := math.Float64frombits(a(0)); x == x && math.Signbit(x) {
			r = 1
		}
	case OFRound32:
		r = math.Float64bits(float64(float32(math.Float64frombits(a(0)))))
	case OFFromBits:
		r = a(0)
	case OFFromSBV:
		r = math.Float64bits(float64(sext(a(0), t.Args[0].S.W)))
	case OFFromInt:
		r = math.Float64bits(float64(int64(a(0))))
	case OApp:
		var sb strings.Builder
		sb.WriteString(t.Name)
		for i := range t.Args {
			fmt.Fprintf(&sb, ",%d", a(i))
		}
		v, ok := c.m["@app:"+sb.String()]
		if !ok {
			c.miss = true
		}
		r = v
	default:
		panic("eval: unknown op")
	}
	c.memo[t.ID] = r
	return r
}

// vars collects the free variables of t.
func collectVars(t *Term, seen map[int]bool, out *[]*Term) {
	if seen[t.ID] {
		return
	}
	seen[t.ID] = true
	if t.Op == OVar {
		*out = append(*out, t)
		return
	}
	for _, a := range t.Args {
		collectVars(a, seen, out)
	}
}

var _ = bits.Len
