package main

import (
	"fmt"
	"go/types"
	"math"
)

// mergeVal builds ite(c, a, b) on values; ok=false if the shapes differ.
// fpMixed allows integer-valued symbolic floats to be mixed with non-integer
// constants by switching to IEEE terms (set per unit: cap "fp").
var fpMixed bool

func mergeVal(c *Term, a, b Value) (Value, bool) {
	switch x := a.(type) {
	case *Term:
		y, ok := b.(*Term)
		if !ok || x.S != y.S {
			return nil, false
		}
		return Ite(c, x, y), true
	case FloatV:
		y, ok := b.(FloatV)
		if !ok {
			return nil, false
		}
		if x.isConc() && y.isConc() && (x.F == y.F && math.Signbit(x.F) == math.Signbit(y.F) || (x.F != x.F && y.F != y.F)) {
			return x, true
		}
		if x.FP != nil || y.FP != nil {
			return FloatV{FP: Ite(c, x.asFP(), y.asFP())}, true
		}
		xi, xm, ok1 := x.asInt()
		yi, ym, ok2 := y.asInt()
		if !ok1 || !ok2 {
			if fpMixed {
				// an integer-valued symbolic float merged with a non-integer
				// constant (NaN, a fraction): IEEE terms
				return FloatV{FP: Ite(c, x.asFP(), y.asFP())}, true
			}
			return nil, false
		}
		return FloatV{Sym: Ite(c, xi, yi), Mag: math.Max(xm, ym)}, true
	case StrV:
		y, ok := b.(StrV)
		if !ok || len(x.B) != len(y.B) {
			return nil, false
		}
		same := true
		for i := range x.B {
			if x.B[i] != y.B[i] {
				same = false
				break
			}
		}
		if same {
			return x, true
		}
		r := make([]*Term, len(x.B))
		for i := range r {
			r[i] = Ite(c, x.B[i], y.B[i])
		}
		return StrV{r}, true
	case PtrV:
		y, ok := b.(PtrV)
		if !ok || !ptrEq(x, y) {
			return nil, false
		}
		return x, true
	case SliceV:
		y, ok := b.(SliceV)
		if !ok || x.Obj != y.Obj || x.Off != y.Off || x.Len != y.Len || x.Cap != y.Cap || !pathEq(x.Path, y.Path) {
			return nil, false
		}
		return x, true
	case *StructV:
		y, ok := b.(*StructV)
		if !ok || len(x.F) != len(y.F) {
			return nil, false
		}
		if x == y {
			return x, true
		}
		r := &StructV{F: make([]Value, len(x.F))}
		for i := range x.F {
			v, ok := mergeVal(c, x.F[i], y.F[i])
			if !ok {
				return nil, false
			}
			r.F[i] = v
		}
		return r, true
	case *ArrayV:
		y, ok := b.(*ArrayV)
		if !ok || len(x.E) != len(y.E) {
			return nil, false
		}
		if x == y {
			return x, true
		}
		r := &ArrayV{E: make([]Value, len(x.E))}
		for i := range x.E {
			if x.E[i] == y.E[i] {
				r.E[i] = x.E[i]
				continue
			}
			v, ok := mergeVal(c, x.E[i], y.E[i])
			if !ok {
				return nil, false
			}
			r.E[i] = v
		}
		return r, true
	case IfaceV:
		y, ok := b.(IfaceV)
		if !ok {
			return nil, false
		}
		if x.T == nil && y.T == nil {
			return x, true
		}
		if x.T == nil || y.T == nil || !types.Identical(x.T, y.T) {
			return nil, false
		}
		v, ok := mergeVal(c, x.V, y.V)
		if !ok {
			return nil, false
		}
		return IfaceV{x.T, v}, true
	case MapV:
		y, ok := b.(MapV)
		if !ok || x.Obj != y.Obj {
			return nil, false
		}
		return x, true
	case IterV:
		y, ok := b.(IterV)
		if !ok || x.Obj != y.Obj {
			return nil, false
		}
		return x, true
	case FuncV:
		y, ok := b.(FuncV)
		if !ok || x.Fn != y.Fn || x.Native != y.Native || len(x.Free) != len(y.Free) {
			return nil, false
		}
		for i := range x.Free {
			if !valIdentical(x.Free[i], y.Free[i]) {
				return nil, false
			}
		}
		return x, true
	case TupleV:
		y, ok := b.(TupleV)
		if !ok || len(x) != len(y) {
			return nil, false
		}
		r := make(TupleV, len(x))
		for i := range x {
			v, ok := mergeVal(c, x[i], y[i])
			if !ok {
				return nil, false
			}
			r[i] = v
		}
		return r, true
	case nil:
		if b == nil {
			return nil, true
		}
		return nil, false
	}
	return nil, false
}

func pathEq(a, b []PathElem) bool {
	if len(a) != len(b) {
		return false
	}
	for i := range a {
		if a[i].Sym != b[i].Sym || (a[i].Sym == nil && a[i].I != b[i].I) {
			return false
		}
	}
	return true
}

func ptrEq(a, b PtrV) bool { return a.Obj == b.Obj && pathEq(a.Path, b.Path) }

// valIdentical: syntactic identity of two values (no solver).
func valIdentical(a, b Value) bool {
	switch x := a.(type) {
	case *Term:
		y, ok := b.(*Term)
		return ok && x == y
	case FloatV:
		y, ok := b.(FloatV)
		if !ok {
			return false
		}
		if x.FP != nil || y.FP != nil {
			return x.FP == y.FP
		}
		if x.Sym != nil || y.Sym != nil {
			return x.Sym == y.Sym
		}
		return math.Float64bits(x.F) == math.Float64bits(y.F)
	case StrV:
		y, ok := b.(StrV)
		if !ok || len(x.B) != len(y.B) {
			return false
		}
		for i := range x.B {
			if x.B[i] != y.B[i] {
				return false
			}
		}
		return true
	case PtrV:
		y, ok := b.(PtrV)
		return ok && ptrEq(x, y)
	case SliceV:
		y, ok := b.(SliceV)
		return ok && x.Obj == y.Obj && x.Off == y.Off && x.Len == y.Len && x.Cap == y.Cap && pathEq(x.Path, y.Path)
	case *StructV:
		y, ok := b.(*StructV)
		if !ok || len(x.F) != len(y.F) {
			return false
		}
		for i := range x.F {
			if !valIdentical(x.F[i], y.F[i]) {
				return false
			}
		}
		return true
	case *ArrayV:
		y, ok := b.(*ArrayV)
		if !ok || len(x.E) != len(y.E) {
			return false
		}
		for i := range x.E {
			if !valIdentical(x.E[i], y.E[i]) {
				return false
			}
		}
		return true
	case IfaceV:
		y, ok := b.(IfaceV)
		if !ok {
			return false
		}
		if x.T == nil || y.T == nil {
			return x.T == nil && y.T == nil
		}
		return types.Identical(x.T, y.T) && valIdentical(x.V, y.V)
	case MapV:
		y, ok := b.(MapV)
		return ok && x.Obj == y.Obj
	case IterV:
		y, ok := b.(IterV)
		return ok && x.Obj == y.Obj
	case FuncV:
		y, ok := b.(FuncV)
		if !ok || x.Fn != y.Fn || x.Native != y.Native || len(x.Free) != len(y.Free) {
			return false
		}
		for i := range x.Free {
			if !valIdentical(x.Free[i], y.Free[i]) {
				return false
			}
		}
		return true
	case TupleV:
		y, ok := b.(TupleV)
		if !ok || len(x) != len(y) {
			return false
		}
		for i := range x {
			if !valIdentical(x[i], y[i]) {
				return false
			}
		}
		return true
	case nil:
		return b == nil
	}
	return false
}

// selectTerm builds the value at symbolic index idx (a 64-bit term holding the
// absolute index lo+k for vals[k]), grouping equal cells.
func selectTerm(idx *Term, lo int, vals []*Term) *Term {
	if len(vals) == 0 {
		panic("selectTerm: empty")
	}
	// group positions by value
	type grp struct {
		v   *Term
		pos []int
	}
	var groups []*grp
	byID := map[int]*grp{}
	for k, v := range vals {
		g := byID[v.ID]
		if g == nil {
			g = &grp{v: v}
			byID[v.ID] = g
			groups = append(groups, g)
		}
		g.pos = append(g.pos, lo+k)
	}
	if len(groups) == 1 {
		return groups[0].v
	}
	// the largest group becomes the default
	def := 0
	for i, g := range groups {
		if len(g.pos) > len(groups[def].pos) {
			def = i
		}
	}
	res := groups[def].v
	w := idx.S.W
	for i := len(groups) - 1; i >= 0; i-- {
		if i == def {
			continue
		}
		g := groups[i]
		conds := make([]*Term, 0, len(g.pos))
		// contiguous runs become range tests
		for s := 0; s < len(g.pos); {
			e := s
			for e+1 < len(g.pos) && g.pos[e+1] == g.pos[e]+1 {
				e++
			}
			if e-s >= 2 {
				conds = append(conds, And(ULe(BVC(w, uint64(g.pos[s])), idx), ULe(idx, BVC(w, uint64(g.pos[e])))))
			} else {
				for k := s; k <= e; k++ {
					conds = append(conds, Eq(idx, BVC(w, uint64(g.pos[k]))))
				}
			}
			s = e + 1
		}
		res = Ite(Or(conds...), g.v, res)
	}
	return res
}

// selectVal is selectTerm lifted to values.
func selectVal(idx *Term, lo int, vals []Value) Value {
	if len(vals) == 0 {
		panic("selectVal: empty")
	}
	switch x := vals[0].(type) {
	case *Term:
		ts := make([]*Term, len(vals))
		for i, v := range vals {
			ts[i] = v.(*Term)
		}
		return selectTerm(idx, lo, ts)
	case FloatV:
		ts := make([]*Term, len(vals))
		mag := 0.0
		allSame := true
		needFP := false
		for i, v := range vals {
			f := v.(FloatV)
			if !(f.isConc() && x.isConc() && math.Float64bits(f.F) == math.Float64bits(x.F)) {
				allSame = false
			}
			if f.FP != nil {
				needFP = true
				continue
			}
			t, m, ok := f.asInt()
			if !ok {
				needFP = true
				continue
			}
			ts[i] = t
			mag = math.Max(mag, m)
		}
		if allSame {
			return x
		}
		if needFP {
			// non-integer cells (fractions, NaN, general symbolic floats):
			// select among IEEE terms
			if !fpMixed {
				panic(unsupported("symbolic index into non-integer floats"))
			}
			for i, v := range vals {
				ts[i] = v.(FloatV).asFP()
			}
			return FloatV{FP: selectTerm(idx, lo, ts)}
		}
		return FloatV{Sym: selectTerm(idx, lo, ts), Mag: mag}
	case *StructV:
		r := &StructV{F: make([]Value, len(x.F))}
		for f := range x.F {
			col := make([]Value, len(vals))
			for i, v := range vals {
				col[i] = v.(*StructV).F[f]
			}
			r.F[f] = selectVal(idx, lo, col)
		}
		return r
	case *ArrayV:
		r := &ArrayV{E: make([]Value, len(x.E))}
		for f := range x.E {
			col := make([]Value, len(vals))
			for i, v := range vals {
				col[i] = v.(*ArrayV).E[f]
			}
			r.E[f] = selectVal(idx, lo, col)
		}
		return r
	case StrV:
		n := len(x.B)
		for _, v := range vals {
			if len(v.(StrV).B) != n {
				panic(unsupported("symbolic index into strings of different lengths"))
			}
		}
		r := make([]*Term, n)
		for k := 0; k < n; k++ {
			col := make([]*Term, len(vals))
			for i, v := range vals {
				col[i] = v.(StrV).B[k]
			}
			r[k] = selectTerm(idx, lo, col)
		}
		return StrV{r}
	}
	for _, v := range vals[1:] {
		if !valIdentical(vals[0], v) {
			panic(symIndexFail{fmt.Sprintf("%T", vals[0])})
		}
	}
	return vals[0]
}

func child(v Value, i int) Value {
	switch x := v.(type) {
	case *StructV:
		return x.F[i]
	case *ArrayV:
		if i < 0 || i >= len(x.E) {
			panic(fmt.Sprintf("internal: array child %d of %d", i, len(x.E)))
		}
		return x.E[i]
	}
	panic(fmt.Sprintf("internal: child of %T", v))
}

func setChild(v Value, i int, c Value) {
	switch x := v.(type) {
	case *StructV:
		x.F[i] = c
	case *ArrayV:
		x.E[i] = c
	default:
		panic(fmt.Sprintf("internal: setChild of %T", v))
	}
}

func loadPath(v Value, path []PathElem) Value {
	if len(path) == 0 {
		return copyVal(v)
	}
	pe := path[0]
	if pe.Sym == nil {
		return loadPath(child(v, pe.I), path[1:])
	}
	arr := v.(*ArrayV)
	lo, hi := pe.I, pe.I+symRangeLen(pe)
	_ = arr
	vals := make([]Value, 0, hi-lo)
	for j := lo; j < hi; j++ {
		vals = append(vals, loadPath(arr.E[j], path[1:]))
	}
	return selectVal(pe.Sym, lo, vals)
}

func symRangeLen(pe PathElem) int { return pe.N }

func mkSymElem(idx *Term, lo, n int) PathElem { return PathElem{I: lo, Sym: idx, N: n} }

func storeRec(cur Value, path []PathElem, v Value, guard *Term) Value {
	if len(path) == 0 {
		if guard == nil {
			return copyVal(v)
		}
		m, ok := mergeVal(guard, v, cur)
		if !ok {
			panic(unsupported(fmt.Sprintf("guarded store of %T over %T", v, cur)))
		}
		return m
	}
	pe := path[0]
	if pe.Sym == nil {
		setChild(cur, pe.I, storeRec(child(cur, pe.I), path[1:], v, guard))
		return cur
	}
	arr := cur.(*ArrayV)
	lo, hi := pe.I, pe.I+symRangeLen(pe)
	for j := lo; j < hi; j++ {
		g := Eq(pe.Sym, BVC(pe.Sym.S.W, uint64(j)))
		if guard != nil {
			g = And(guard, g)
		}
		arr.E[j] = storeRec(arr.E[j], path[1:], v, g)
	}
	return cur
}

func (st *State) Load(p PtrV) Value {
	o := st.obj(p.Obj)
	return loadPath(o.V, p.Path)
}

func (st *State) Store(p PtrV, v Value) {
	o := st.wobj(p.Obj)
	o.V = storeRec(o.V, p.Path, v, nil)
}

func extPath(p []PathElem, e PathElem) []PathElem {
	n := make([]PathElem, len(p)+1)
	copy(n, p)
	n[len(p)] = e
	return n
}

// slice element helpers (concrete index)
func (st *State) sliceGet(s SliceV, i int) Value {
	o := st.obj(s.Obj)
	arr := loadArr(o.V, s.Path)
	v := arr.E[s.Off+i]
	switch v.(type) {
	case *StructV, *ArrayV:
		return copyVal(v)
	}
	return v
}

func loadArr(v Value, path []PathElem) *ArrayV {
	for _, pe := range path {
		if pe.Sym != nil {
			panic(unsupported("slice over symbolically indexed array"))
		}
		v = child(v, pe.I)
	}
	a, ok := v.(*ArrayV)
	if !ok {
		panic(fmt.Sprintf("internal: slice base is %T", v))
	}
	return a
}

// sliceArr returns the writable backing array of s.
func (st *State) sliceArrW(s SliceV) *ArrayV {
	o := st.wobj(s.Obj)
	return loadArr(o.V, s.Path)
}

func (st *State) sliceArrR(s SliceV) *ArrayV {
	o := st.obj(s.Obj)
	if hasSym(s.Path) {
		// materialise a read-only view
		v := loadPath(o.V, s.Path)
		return v.(*ArrayV)
	}
	return loadArr(o.V, s.Path)
}

func hasSym(p []PathElem) bool {
	for _, e := range p {
		if e.Sym != nil {
			return true
		}
	}
	return false
}

type symIndexFail struct{ kind string }

// tryLoad loads through p; ok=false if a symbolic index would have to select
// among cells that cannot be merged (pointers, slices of different shape).
func (st *State) tryLoad(p PtrV) (v Value, ok bool) {
	defer func() {
		if r := recover(); r != nil {
			if _, is := r.(symIndexFail); is {
				ok = false
				return
			}
			panic(r)
		}
	}()
	return st.Load(p), true
}
