package main

// One unit of work: a harness entry function run symbolically under one set
// of concrete case parameters.

import (
	"fmt"
	"os"
	"runtime/debug"
	"sort"
	"strconv"
	"strings"
	"time"

	"golang.org/x/tools/go/ssa"
)

type Witness struct {
	Nondet map[string]uint64 `json:"nondet"`
	Obs    []string          `json:"obs"`
	Order  bool              `json:"order_dependent,omitempty"`
}

type ViolationOut struct {
	Kind   string            `json:"kind"`
	Label  string            `json:"label"`
	Nondet map[string]uint64 `json:"nondet"`
	Obs    []string          `json:"obs,omitempty"`
}

type UnitResult struct {
	Pkg     string         `json:"pkg"`
	Harness string         `json:"harness"`
	Case    map[string]int `json:"case"`

	Paths           int `json:"paths"`
	DeadPaths       int `json:"dead_paths"`
	PanicPaths      int `json:"panic_paths"`
	Forks           int `json:"forks"`
	Merges          int `json:"merges"`
	MergeFails      int `json:"merge_fails"`
	Instrs          int `json:"instrs"`
	Asserts         int `json:"asserts"`
	AssertsConcrete int `json:"asserts_concrete"`
	AssertQueries   int `json:"assert_queries"`
	AssertsProved   int `json:"asserts_proved"`
	AssertsByFacts  int `json:"asserts_by_path_facts"`
	AssertsByGlobal int `json:"asserts_by_validity_under_assumptions"`
	ValidityQueries int `json:"validity_queries"`
	AssertsRefuted  int `json:"asserts_refuted"`
	UnknownFeas     int `json:"unknown_feasibility"`
	ReachedEnd      int `json:"reached_end"`

	Violations   []ViolationOut `json:"violations,omitempty"`
	Inconclusive []string       `json:"inconclusive,omitempty"`
	Witnesses    []Witness      `json:"witnesses,omitempty"`
	InputOrder   []string       `json:"-"`
	InputKinds   map[string]string `json:"input_kinds,omitempty"`

	Funcs      []string    `json:"funcs,omitempty"`
	Intrinsics []string    `json:"intrinsics,omitempty"`
	Solver     SolverStats `json:"solver"`
	Seconds    float64     `json:"seconds"`
	Error      string      `json:"error,omitempty"`

	violSeen map[string]bool
}

func (r *UnitResult) addViolation(v Violation) {
	if r.violSeen == nil {
		r.violSeen = map[string]bool{}
	}
	key := v.Kind + "|" + v.Label
	if r.violSeen[key] {
		return
	}
	r.violSeen[key] = true
	r.Violations = append(r.Violations, ViolationOut{Kind: v.Kind, Label: v.Label, Nondet: v.Model, Obs: v.Obs})
}

func (e *Engine) modelOf(st *State) Model {
	if st.Model != nil {
		return st.Model
	}
	r, m := e.solver.Check(st.feasPC(), nil, e.cfg.AssertTimeout, true)
	if r == Sat {
		st.Model = m
		return m
	}
	return nil
}

func (e *Engine) inputsOf(m Model) map[string]uint64 {
	out := map[string]uint64{}
	for name := range e.inputs {
		out[name] = m[name]
	}
	return out
}

func obsString(m Model, o ObsEntry) string {
	ec := &evalCtx{m: m, memo: map[int]uint64{}}
	switch o.Kind {
	case "int":
		t := o.V.(*Term)
		return fmt.Sprintf("%s=%d", o.Name, sext(ec.eval(t), t.S.W))
	case "bool":
		return fmt.Sprintf("%s=%v", o.Name, ec.eval(o.V.(*Term)) != 0)
	case "bytes", "str":
		s := o.V.(StrV)
		var sb strings.Builder
		for _, b := range s.B {
			fmt.Fprintf(&sb, "%02x", ec.eval(b))
		}
		return fmt.Sprintf("%s=%s", o.Name, sb.String())
	}
	return o.Name + "=?"
}

func (e *Engine) runInit(st *State) error {
	initFn := e.pkg.Func("init")
	if initFn == nil {
		return nil
	}
	e.pushEntry(st, initFn)
	saved := e.cfg
	e.cfg.MaxInstrPath = 200_000_000
	defer func() { e.cfg = saved }()
	// package initialisers run with one map iteration order (insertion
	// order): tables built by ranging over a map literal do not depend on it,
	// and exploring the orders would fork the initial state
	mo := st.MapOrder
	st.MapOrder = 0
	defer func() { st.MapOrder = mo }()
	e.run(st)
	if st.EndKind != "ok" {
		return fmt.Errorf("package init: %s %s", st.EndKind, st.EndMsg)
	}
	if len(e.work) != 0 {
		return fmt.Errorf("package init forked")
	}
	st.Done = false
	st.EndKind = ""
	st.NInstr = 0
	return nil
}

func (e *Engine) pushEntry(st *State, fn *ssa.Function) {
	fi := e.info(fn)
	e.funcs[fn.String()] = true
	fr := &Frame{Fn: fn, Info: fi, Block: fn.Blocks[0], Env: make([]Value, fi.n), RetReg: -1}
	st.Frames = append(st.Frames, fr)
}

// RunUnit explores the harness under the given case.
func RunUnit(ld *Loaded, harness string, cfg Config, workDir string, seed int, prelude *State) (res *UnitResult) {
	t0 := time.Now()
	res = &UnitResult{Pkg: ld.pkg.Pkg.Path(), Harness: harness, Case: cfg.Case}
	defer func() {
		res.Seconds = time.Since(t0).Seconds()
		if r := recover(); r != nil {
			res.Error = fmt.Sprintf("engine error: %v", r)
			if os.Getenv("VP_DEBUG") != "" {
				fmt.Fprintf(os.Stderr, "%v\n%s\n", r, debug.Stack())
				if e := curEngine; e != nil && e.curState != nil {
					fmt.Fprintln(os.Stderr, e.where(e.curState))
				}
			}
		}
	}()
	fpMixed = cfg.FPMixed
	liveSolver = "z3-new"
	if cfg.Live != "" {
		liveSolver = cfg.Live
	}
	solver, err := NewSolver(workDir, seed)
	if err != nil {
		res.Error = err.Error()
		return
	}
	defer solver.Close()
	e := NewEngine(ld.prog, ld.pkg, solver, cfg)
	e.res = res
	curEngine = e
	fn := ld.pkg.Func(harness)
	if fn == nil {
		res.Error = "harness function not found: " + harness
		return
	}
	// package initialisers run once per worker process and package; every
	// unit starts from a copy of the resulting state
	e.infos = ld.infos
	if ld.prelude == nil {
		ps := NewState()
		if err := e.runInit(ps); err != nil {
			res.Error = err.Error()
			return
		}
		ld.prelude = ps
	}
	st := ld.prelude.Clone()
	st.Done, st.EndKind, st.NInstr = false, "", 0
	initInstrs := res.Instrs
	_ = initInstrs
	e.pushEntry(st, fn)
	e.work = []*State{st}
	deadline := t0.Add(time.Duration(cfg.MaxSeconds * float64(time.Second)))
	total := 0
	for len(e.work) > 0 {
		s := e.work[len(e.work)-1]
		e.work = e.work[:len(e.work)-1]
		if total >= cfg.MaxPaths {
			res.Inconclusive = append(res.Inconclusive, fmt.Sprintf("path budget %d exceeded (%d pending)", cfg.MaxPaths, len(e.work)+1))
			break
		}
		if time.Now().After(deadline) {
			res.Inconclusive = append(res.Inconclusive, fmt.Sprintf("time budget %.0fs exceeded (%d pending)", cfg.MaxSeconds, len(e.work)+1))
			break
		}
		e.run(s)
		total++
		res.Instrs += s.NInstr
		switch s.EndKind {
		case "ok":
			res.Paths++
			if s.Reached["end"] {
				res.ReachedEnd++
			}
			if len(res.Witnesses) < 3 || (res.Paths%17 == seed%17 && len(res.Witnesses) < 8) {
				if m := e.modelOf(s); m != nil {
					w := Witness{Nondet: e.inputsOf(m)}
					for _, o := range s.Log {
						w.Obs = append(w.Obs, obsString(m, o))
					}
					w.Order = s.OrderPick >= 0 || s.Counters["maporder"] > 0
					res.Witnesses = append(res.Witnesses, w)
				}
			}
		case "dead":
			res.DeadPaths++
		case "panic":
			res.PanicPaths++
			m := e.modelOf(s)
			if m == nil {
				res.Inconclusive = append(res.Inconclusive, "panic path without model: "+s.EndMsg)
			} else {
				v := Violation{Kind: "panic", Label: s.EndMsg, Model: e.inputsOf(m)}
				for _, o := range s.Log {
					v.Obs = append(v.Obs, obsString(m, o))
				}
				res.addViolation(v)
			}
		case "unsupported", "budget":
			msg := s.EndKind + ": " + s.EndMsg
			dup := false
			for _, x := range res.Inconclusive {
				if x == msg {
					dup = true
				}
			}
			if !dup {
				res.Inconclusive = append(res.Inconclusive, msg)
			}
		default:
			res.Inconclusive = append(res.Inconclusive, "path ended in state "+s.EndKind)
		}
	}
	// violations found by assertion queries carry full models; restrict to inputs
	for i := range res.Violations {
		nd := map[string]uint64{}
		for name := range e.inputs {
			nd[name] = res.Violations[i].Nondet[name]
		}
		res.Violations[i].Nondet = nd
	}
	if res.ReachedEnd == 0 && len(res.Violations) == 0 && len(res.Inconclusive) == 0 {
		res.Inconclusive = append(res.Inconclusive, "vacuous: no completed path reached the end marker")
	}
	if res.UnknownFeas > 0 {
		// kept branches whose feasibility the solver could not decide do not
		// endanger soundness (more paths are explored, not fewer)
	}
	res.InputKinds = e.inputKind
	for f := range e.funcs {
		res.Funcs = append(res.Funcs, f)
	}
	sort.Strings(res.Funcs)
	for f := range e.intrUsed {
		res.Intrinsics = append(res.Intrinsics, f)
	}
	sort.Strings(res.Intrinsics)
	res.Solver = solver.Stats
	return
}

func caseString(c map[string]int) string {
	keys := make([]string, 0, len(c))
	for k := range c {
		keys = append(keys, k)
	}
	sort.Strings(keys)
	var sb strings.Builder
	for i, k := range keys {
		if i > 0 {
			sb.WriteByte(',')
		}
		sb.WriteString(k + "=" + strconv.Itoa(c[k]))
	}
	return sb.String()
}

var curEngine *Engine
