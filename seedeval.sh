#!/bin/sh
# usage: seedeval.sh <seed-id> <worktree> <demo-pkg-dir> <tier> <check> [<check> ...]
# Like seedtest.sh, but never touches /repo: the checks run against a fresh
# scratch worktree of /repo HEAD with the patch applied (VERIF_REPO), and the
# evidence of those runs goes to a scratch directory. Used while a background
# run is reading /repo.
# 1. extracts the source patch and the demonstration test from the agent's worktree
# 2. confirms: suite passes with the change (demo aside), demo fails with / passes without it
# 3. runs the given checks against the scratch worktree with the patch applied
set -u
export GOFLAGS=-mod=mod GOPROXY=off GOSUMDB=off GOTOOLCHAIN=local
id=$1; wt=$2; pkg=$3; tier=$4; shift 4
out=/verif/seeded/$id
mkdir -p $out
git -C $wt diff -- . ':!*_test.go' > $out/patch.diff
cp $wt/$pkg/zz_seeded_demo_test.go $out/demo_test.go 2>/dev/null || { echo "no demo test in $wt/$pkg"; }
log=$out/confirm.log; : > $log
mkdir -p /tmp/wt
sw=/tmp/wt/confirm_$id
git -C /repo worktree add -q --detach $sw HEAD
( cd $sw && git apply $out/patch.diff && go build ./... && go test -vet=off -count=1 ./... ) >> $log 2>&1; suite=$?
cp $out/demo_test.go $sw/$pkg/zz_seeded_demo_test.go
( cd $sw && go test -vet=off -count=1 -run 'Seeded|Demo|Seed' ./$pkg ) >> $log 2>&1; demo_with=$?
( cd $sw && git apply -R $out/patch.diff && go test -vet=off -count=1 -run 'Seeded|Demo|Seed' ./$pkg ) >> $log 2>&1; demo_without=$?
rm -f $sw/$pkg/zz_seeded_demo_test.go
echo "suite_with_change_exit=$suite demo_with_change_exit=$demo_with demo_without_change_exit=$demo_without" | tee -a $log
( cd $sw && git apply $out/patch.diff ) || { echo "patch does not apply"; exit 2; }
res=""
for c in "$@"; do
  VERIF_REPO=$sw VERIF_EVIDENCE_DIR=/tmp/wt/ev_$id VERIF_WORKERS=${VERIF_WORKERS:-6} /verif/run $c $tier > $out/check_$c.log 2>&1; rc=$?
  v=$(grep -c '^VIOLATION' $out/check_$c.log)
  i=$(grep -c '^INCONCLUSIVE' $out/check_$c.log)
  res="$res $c:exit=$rc,violations=$v,inconclusive=$i"
  tail -1 $out/check_$c.log
done
git -C /repo worktree remove --force $sw
rm -rf /tmp/wt/ev_$id
echo "RESULT $id:$res" | tee -a $log
