#!/usr/bin/env python3
# Generates MANIFEST.json from checks/*.json (claimed) and manifest_meta.json.
import json, os, glob
here = os.path.dirname(os.path.abspath(__file__))
meta = json.load(open(os.path.join(here, 'manifest_meta.json')))
props = [json.loads(l) for l in open(os.path.join(here, 'properties.jsonl'))]
checks = []
na = []
for p in props:
    pid = p['id']
    m = meta['properties'].get(pid, {})
    spec = os.path.join(here, 'checks', pid + '.json')
    if os.path.exists(spec) and m.get('claimed', True) and 'text' in m:
        checks.append({
            'property_id': pid,
            'quick_cmd': './run %s quick' % pid,
            'thorough_cmd': './run %s thorough' % pid,
            'evidence_file': 'evidence/%s.json' % pid,
            'replay_cmd_template': './run --replay {path}',
            'engine': 'gosmt',
            'level_claimed': {'category': 'model_checking', 'text': m['text'], 'design_ref': m.get('design_ref', 'DESIGN.md section 6, ' + pid)},
            'level_note': m.get('note', meta['default_note']),
            'technique': m.get('technique', meta['default_technique']),
        })
    else:
        na.append({'property_id': pid, 'reason': m.get('na_reason', 'check not built yet in this session (work in progress)')})
man = {
    'version': 1,
    'setup_cmd': './run --build',
    'hooks': {'guard': 'verif', 'enable': 'none needed: harnesses are added to the packages as go/packages and go test -overlay files; nothing is written into /repo',
              'baseline_off_cmd': 'cd /repo && GOFLAGS=-mod=mod GOPROXY=off go test -vet=off -count=1 ./...', 'source_commits': [], 'add_only': True},
    'engines': [{'name': 'gosmt', 'path': 'engine', 'serves_properties': [c['property_id'] for c in checks],
                 'kind_free_text': 'own Go SSA (golang.org/x/tools v0.29.0) -> SMT-LIB2 path-forking / state-merging symbolic executor; z3 5.1.0 live (cvc5 1.0.3 for the 64-bit order, hash and IEEE floating-point units), z3 4.8.12, z3 5.1.0 and cvc5 for escalation and cross-checks; counterexamples and sampled explored-path models replayed natively with go test -overlay'}],
    'checks': checks,
    'notes': meta['notes'],
    'not_applicable': na,
}
json.dump(man, open(os.path.join(here, 'MANIFEST.json'), 'w'), indent=1)
print('claimed', len(checks), 'not claimed', len(na))
